/* refdns.c - independent DNS wire codec (see refdns.h).  Written from the RFC texts; no c-ares
 * header is included and nothing here is derived from c-ares sources. */
#include "refdns.h"

/* ====================================================================================
 * RDATA schemas (field order as in the RFC that defines the type)
 * ==================================================================================== */
typedef struct {
  const char    *name;
  refdns_fkind_t kind;
  unsigned       flags;
} fdesc_t;
#define FD_MIN1 1u /* CSTR: length >= 1 required by the RFC; CSTRS: at least one string */

typedef struct {
  uint16_t       type;
  const char    *tname;
  size_t         nfields;
  const fdesc_t *f;
  int            comp1035; /* RFC 3597 §4: names in RDATA may be compressed by senders */
  int            compdecomp; /* receivers must be ready to decompress (adds SIG SRV NAPTR) */
} schema_t;

/* RFC 1035 3.4.1 */
static const fdesc_t f_a[] = { { "address", REFDNS_F_IPV4, 0 } };
/* RFC 1035 3.3.11 / 3.3.1 / 3.3.12 */
static const fdesc_t f_ns[]    = { { "nsdname", REFDNS_F_NAME, 0 } };
static const fdesc_t f_cname[] = { { "cname", REFDNS_F_NAME, 0 } };
static const fdesc_t f_ptr[]   = { { "ptrdname", REFDNS_F_NAME, 0 } };
/* RFC 1035 3.3.13 */
static const fdesc_t f_soa[] = { { "mname", REFDNS_F_NAME, 0 },   { "rname", REFDNS_F_NAME, 0 },
                                 { "serial", REFDNS_F_U32, 0 },   { "refresh", REFDNS_F_U32, 0 },
                                 { "retry", REFDNS_F_U32, 0 },    { "expire", REFDNS_F_U32, 0 },
                                 { "minimum", REFDNS_F_U32, 0 } };
/* RFC 1035 3.3.2 */
static const fdesc_t f_hinfo[] = { { "cpu", REFDNS_F_CSTR, 0 }, { "os", REFDNS_F_CSTR, 0 } };
/* RFC 1035 3.3.9 */
static const fdesc_t f_mx[] = { { "preference", REFDNS_F_U16, 0 },
                                { "exchange", REFDNS_F_NAME, 0 } };
/* RFC 1035 3.3.14: "One or more <character-string>s" */
static const fdesc_t f_txt[] = { { "txt", REFDNS_F_CSTRS, FD_MIN1 } };
/* RFC 2535 4.1 */
static const fdesc_t f_sig[] = { { "type_covered", REFDNS_F_U16, 0 },
                                 { "algorithm", REFDNS_F_U8, 0 },
                                 { "labels", REFDNS_F_U8, 0 },
                                 { "original_ttl", REFDNS_F_U32, 0 },
                                 { "expiration", REFDNS_F_U32, 0 },
                                 { "inception", REFDNS_F_U32, 0 },
                                 { "key_tag", REFDNS_F_U16, 0 },
                                 { "signer", REFDNS_F_NAME, 0 },
                                 { "signature", REFDNS_F_REST, 0 } };
/* RFC 3596 2.2 */
static const fdesc_t f_aaaa[] = { { "address", REFDNS_F_IPV6, 0 } };
/* RFC 2782 */
static const fdesc_t f_srv[] = { { "priority", REFDNS_F_U16, 0 },
                                 { "weight", REFDNS_F_U16, 0 },
                                 { "port", REFDNS_F_U16, 0 },
                                 { "target", REFDNS_F_NAME, 0 } };
/* RFC 3403 4.1 */
static const fdesc_t f_naptr[] = { { "order", REFDNS_F_U16, 0 },
                                   { "preference", REFDNS_F_U16, 0 },
                                   { "flags", REFDNS_F_CSTR, 0 },
                                   { "services", REFDNS_F_CSTR, 0 },
                                   { "regexp", REFDNS_F_CSTR, 0 },
                                   { "replacement", REFDNS_F_NAME, 0 } };
/* RFC 6891 6.1.2: RDATA is a list of {OPTION-CODE, OPTION-LENGTH, OPTION-DATA} */
static const fdesc_t f_opt[] = { { "options", REFDNS_F_TLVS, 0 } };
/* RFC 6698 2.1 */
static const fdesc_t f_tlsa[] = { { "usage", REFDNS_F_U8, 0 },
                                  { "selector", REFDNS_F_U8, 0 },
                                  { "mtype", REFDNS_F_U8, 0 },
                                  { "data", REFDNS_F_REST, 0 } };
/* RFC 9460 2.2 */
static const fdesc_t f_svcb[] = { { "priority", REFDNS_F_U16, 0 },
                                  { "target", REFDNS_F_NAME, 0 },
                                  { "params", REFDNS_F_TLVS, 0 } };
/* RFC 7553 4.5 */
static const fdesc_t f_uri[] = { { "priority", REFDNS_F_U16, 0 },
                                 { "weight", REFDNS_F_U16, 0 },
                                 { "target", REFDNS_F_REST, 0 } };
/* RFC 8659 4.1: flags, tag length (>= 1), tag, value */
static const fdesc_t f_caa[] = { { "flags", REFDNS_F_U8, 0 },
                                 { "tag", REFDNS_F_CSTR, FD_MIN1 },
                                 { "value", REFDNS_F_REST, 0 } };

#define NF(a) (sizeof(a) / sizeof((a)[0]))
static const schema_t schemas[] = {
  { REFDNS_T_A,     "a",     NF(f_a),     f_a,     0, 0 },
  { REFDNS_T_NS,    "ns",    NF(f_ns),    f_ns,    1, 1 },
  { REFDNS_T_CNAME, "cname", NF(f_cname), f_cname, 1, 1 },
  { REFDNS_T_SOA,   "soa",   NF(f_soa),   f_soa,   1, 1 },
  { REFDNS_T_PTR,   "ptr",   NF(f_ptr),   f_ptr,   1, 1 },
  { REFDNS_T_HINFO, "hinfo", NF(f_hinfo), f_hinfo, 0, 0 },
  { REFDNS_T_MX,    "mx",    NF(f_mx),    f_mx,    1, 1 },
  { REFDNS_T_TXT,   "txt",   NF(f_txt),   f_txt,   0, 0 },
  { REFDNS_T_SIG,   "sig",   NF(f_sig),   f_sig,   0, 1 },
  { REFDNS_T_AAAA,  "aaaa",  NF(f_aaaa),  f_aaaa,  0, 0 },
  { REFDNS_T_SRV,   "srv",   NF(f_srv),   f_srv,   0, 1 },
  { REFDNS_T_NAPTR, "naptr", NF(f_naptr), f_naptr, 0, 1 },
  { REFDNS_T_OPT,   "opt",   NF(f_opt),   f_opt,   0, 0 },
  { REFDNS_T_TLSA,  "tlsa",  NF(f_tlsa),  f_tlsa,  0, 0 },
  { REFDNS_T_SVCB,  "svcb",  NF(f_svcb),  f_svcb,  0, 0 },
  { REFDNS_T_HTTPS, "https", NF(f_svcb),  f_svcb,  0, 0 },
  { REFDNS_T_URI,   "uri",   NF(f_uri),   f_uri,   0, 0 },
  { REFDNS_T_CAA,   "caa",   NF(f_caa),   f_caa,   0, 0 },
};

static const schema_t *schema_of(uint16_t type)
{
  size_t i;
  for (i = 0; i < NF(schemas); i++) {
    if (schemas[i].type == type) {
      return &schemas[i];
    }
  }
  return NULL;
}

int refdns_type_known(uint16_t type)
{
  return schema_of(type) != NULL;
}

const char *refdns_type_name(uint16_t type)
{
  const schema_t *s = schema_of(type);
  return s ? s->tname : "raw";
}

const char *refdns_status_name(refdns_status_t st)
{
  switch (st) {
    case REFDNS_OK:
      return "ok";
    case REFDNS_ERR_TRUNC_HEADER:
      return "trunc-header";
    case REFDNS_ERR_COUNTS:
      return "counts";
    case REFDNS_ERR_NAME_OVERRUN:
      return "name-overrun";
    case REFDNS_ERR_LABEL_OVERRUN:
      return "label-overrun";
    case REFDNS_ERR_LABEL_RESERVED:
      return "label-reserved";
    case REFDNS_ERR_PTR_FORWARD:
      return "ptr-forward";
    case REFDNS_ERR_PTR_SELF:
      return "ptr-self";
    case REFDNS_ERR_PTR_LOOP:
      return "ptr-loop";
    case REFDNS_ERR_NAME_TOO_LONG:
      return "name-too-long";
    case REFDNS_ERR_RR_HEADER_OVERRUN:
      return "rr-header-overrun";
    case REFDNS_ERR_RDATA_OVERRUN:
      return "rdata-overrun";
    case REFDNS_ERR_RDATA_FIELD:
      return "rdata-field";
  }
  return "?";
}

/* ====================================================================================
 * small utilities
 * ==================================================================================== */
static void *xmalloc(size_t n)
{
  void *p = malloc(n ? n : 1);
  if (p == NULL) {
    fprintf(stderr, "refdns: out of memory\n");
    abort();
  }
  return p;
}

static void *xrealloc(void *o, size_t n)
{
  void *p = realloc(o, n ? n : 1);
  if (p == NULL) {
    fprintf(stderr, "refdns: out of memory\n");
    abort();
  }
  return p;
}

static void bytes_set(refdns_bytes_t *b, const void *p, size_t n)
{
  free(b->p);
  b->p = NULL;
  b->n = 0;
  if (n) {
    b->p = (uint8_t *)xmalloc(n);
    memcpy(b->p, p, n);
    b->n = n;
  }
}

static void bytes_free(refdns_bytes_t *b)
{
  free(b->p);
  b->p = NULL;
  b->n = 0;
}

void refdns_msg_init(refdns_msg_t *m)
{
  memset(m, 0, sizeof(*m));
}

static void field_free(refdns_field_t *f)
{
  size_t i;
  free(f->dname);
  f->dname = NULL;
  bytes_free(&f->bytes);
  for (i = 0; i < f->n; i++) {
    if (f->chunks) {
      bytes_free(&f->chunks[i]);
    }
    if (f->tlvs) {
      bytes_free(&f->tlvs[i].val);
    }
  }
  free(f->chunks);
  free(f->tlvs);
  f->chunks = NULL;
  f->tlvs   = NULL;
  f->n      = 0;
}

void refdns_rr_free(refdns_rr_t *rr)
{
  size_t i;
  for (i = 0; i < rr->nfields; i++) {
    field_free(&rr->fields[i]);
  }
  rr->nfields = 0;
  bytes_free(&rr->raw);
  bytes_free(&rr->extra);
}

void refdns_free(refdns_msg_t *m)
{
  size_t i;
  if (m == NULL) {
    return;
  }
  for (i = 0; i < m->nrr; i++) {
    refdns_rr_free(&m->rr[i]);
  }
  free(m->rr);
  free(m->q);
  free(m->ptr);
  refdns_msg_init(m);
}

/* ---------- names ---------- */
void refdns_name_root(refdns_name_t *n)
{
  n->nlabels = 0;
}

static size_t name_databytes(const refdns_name_t *n)
{
  size_t i, t = 0;
  for (i = 0; i < n->nlabels; i++) {
    t += n->len[i];
  }
  return t;
}

size_t refdns_name_wirelen(const refdns_name_t *n)
{
  return name_databytes(n) + n->nlabels + 1;
}

int refdns_name_push_back(refdns_name_t *n, const uint8_t *label, size_t len)
{
  size_t used = name_databytes(n);
  if (len == 0 || len > 63 || n->nlabels >= REFDNS_MAX_LABELS ||
      refdns_name_wirelen(n) + len + 1 > 255) {
    return -1;
  }
  memcpy(n->data + used, label, len);
  n->len[n->nlabels++] = (uint8_t)len;
  return 0;
}

int refdns_name_push_front(refdns_name_t *n, const uint8_t *label, size_t len)
{
  size_t used = name_databytes(n);
  if (len == 0 || len > 63 || n->nlabels >= REFDNS_MAX_LABELS ||
      refdns_name_wirelen(n) + len + 1 > 255) {
    return -1;
  }
  memmove(n->data + len, n->data, used);
  memcpy(n->data, label, len);
  memmove(n->len + 1, n->len, n->nlabels);
  n->len[0] = (uint8_t)len;
  n->nlabels++;
  return 0;
}

const uint8_t *refdns_name_label(const refdns_name_t *n, size_t i, size_t *len)
{
  size_t k, off = 0;
  if (i >= n->nlabels) {
    return NULL;
  }
  for (k = 0; k < i; k++) {
    off += n->len[k];
  }
  if (len) {
    *len = n->len[i];
  }
  return n->data + off;
}

int refdns_name_eq(const refdns_name_t *a, const refdns_name_t *b)
{
  if (a->nlabels != b->nlabels || memcmp(a->len, b->len, a->nlabels) != 0) {
    return 0;
  }
  return memcmp(a->data, b->data, name_databytes(a)) == 0;
}

static uint8_t fold(uint8_t c)
{
  return (c >= 'A' && c <= 'Z') ? (uint8_t)(c + 32) : c;
}

int refdns_name_eq_nocase(const refdns_name_t *a, const refdns_name_t *b)
{
  size_t i, n;
  if (a->nlabels != b->nlabels || memcmp(a->len, b->len, a->nlabels) != 0) {
    return 0;
  }
  n = name_databytes(a);
  for (i = 0; i < n; i++) {
    if (fold(a->data[i]) != fold(b->data[i])) {
      return 0;
    }
  }
  return 1;
}

int refdns_name_from_text(refdns_name_t *n, const char *text)
{
  uint8_t     lab[64];
  size_t      ll = 0;
  const char *p  = text;
  refdns_name_root(n);
  if (text[0] == 0 || (text[0] == '.' && text[1] == 0)) {
    return 0;
  }
  for (;;) {
    unsigned char c = (unsigned char)*p;
    if (c == 0 || c == '.') {
      if (ll == 0) {
        return -1; /* empty label */
      }
      if (refdns_name_push_back(n, lab, ll) != 0) {
        return -1;
      }
      ll = 0;
      if (c == 0) {
        return 0;
      }
      p++;
      if (*p == 0) {
        return 0; /* trailing dot */
      }
      continue;
    }
    if (c == '\\') {
      p++;
      c = (unsigned char)*p;
      if (c == 0) {
        return -1;
      }
      if (c >= '0' && c <= '9') {
        unsigned v;
        if (p[1] < '0' || p[1] > '9' || p[2] < '0' || p[2] > '9') {
          return -1;
        }
        v = (unsigned)(c - '0') * 100 + (unsigned)(p[1] - '0') * 10 + (unsigned)(p[2] - '0');
        if (v > 255) {
          return -1;
        }
        c = (unsigned char)v;
        p += 2;
      }
    }
    if (ll >= 63) {
      return -1;
    }
    lab[ll++] = c;
    p++;
  }
}

int refdns_name_to_text(const refdns_name_t *n, char *buf, size_t buflen)
{
  size_t i, k, o = 0, off = 0;
  if (n->nlabels == 0) {
    if (buflen < 2) {
      return -1;
    }
    buf[0] = '.';
    buf[1] = 0;
    return 1;
  }
  for (i = 0; i < n->nlabels; i++) {
    if (i) {
      if (o + 1 >= buflen) {
        return -1;
      }
      buf[o++] = '.';
    }
    for (k = 0; k < n->len[i]; k++) {
      uint8_t c = n->data[off + k];
      if (o + 5 >= buflen) {
        return -1;
      }
      if (c < 0x21 || c > 0x7e) {
        buf[o++] = '\\';
        buf[o++] = (char)('0' + c / 100);
        buf[o++] = (char)('0' + (c / 10) % 10);
        buf[o++] = (char)('0' + c % 10);
      } else {
        if (c == '.' || c == '\\' || c == '"' || c == ';' || c == '(' || c == ')' || c == '@' ||
            c == '$') {
          buf[o++] = '\\';
        }
        buf[o++] = (char)c;
      }
    }
    off += n->len[i];
  }
  buf[o] = 0;
  return (int)o;
}

/* ====================================================================================
 * construction
 * ==================================================================================== */
refdns_question_t *refdns_add_question(refdns_msg_t *m, const refdns_name_t *name, uint16_t type,
                                       uint16_t klass)
{
  refdns_question_t *q;
  m->q = (refdns_question_t *)xrealloc(m->q, (m->nq + 1) * sizeof(*m->q));
  q    = &m->q[m->nq++];
  memset(q, 0, sizeof(*q));
  q->name  = *name;
  q->type  = type;
  q->klass = klass;
  return q;
}

static refdns_rr_t *rr_new(refdns_msg_t *m)
{
  refdns_rr_t *rr;
  if ((m->nrr & (m->nrr + 1)) == 0 || m->rr == NULL) { /* grow at powers of two */
    size_t cap = m->nrr ? (m->nrr + 1) * 2 : 4;
    m->rr      = (refdns_rr_t *)xrealloc(m->rr, cap * sizeof(*m->rr));
  }
  rr = &m->rr[m->nrr++];
  memset(rr, 0, sizeof(*rr));
  return rr;
}

static void rr_init_fields(refdns_rr_t *rr, const schema_t *s)
{
  size_t i;
  rr->typed   = 1;
  rr->nfields = s->nfields;
  for (i = 0; i < s->nfields; i++) {
    refdns_field_t *f = &rr->fields[i];
    memset(f, 0, sizeof(*f));
    f->name = s->f[i].name;
    f->kind = s->f[i].kind;
    if (f->kind == REFDNS_F_NAME) {
      f->dname = (refdns_name_t *)xmalloc(sizeof(refdns_name_t));
      refdns_name_root(f->dname);
    }
  }
}

refdns_rr_t *refdns_add_rr(refdns_msg_t *m, int section, const refdns_name_t *owner,
                           uint16_t type, uint16_t klass, uint32_t ttl)
{
  refdns_rr_t    *rr = rr_new(m);
  const schema_t *s  = schema_of(type);
  rr->section        = (uint8_t)section;
  rr->owner          = *owner;
  rr->type           = type;
  rr->klass          = klass;
  rr->ttl            = ttl;
  if (s) {
    rr_init_fields(rr, s);
  }
  return rr;
}

refdns_rr_t *refdns_add_rr_raw(refdns_msg_t *m, int section, const refdns_name_t *owner,
                               uint16_t type, uint16_t klass, uint32_t ttl, const uint8_t *rdata,
                               size_t rdlen)
{
  refdns_rr_t *rr = rr_new(m);
  rr->section     = (uint8_t)section;
  rr->owner       = *owner;
  rr->type        = type;
  rr->klass       = klass;
  rr->ttl         = ttl;
  rr->typed       = 0;
  bytes_set(&rr->raw, rdata, rdlen);
  return rr;
}

refdns_field_t *refdns_rr_field(refdns_rr_t *rr, const char *name)
{
  size_t i;
  if (!rr->typed) {
    return NULL;
  }
  for (i = 0; i < rr->nfields; i++) {
    if (strcmp(rr->fields[i].name, name) == 0) {
      return &rr->fields[i];
    }
  }
  return NULL;
}

const refdns_field_t *refdns_rr_field_c(const refdns_rr_t *rr, const char *name)
{
  return refdns_rr_field((refdns_rr_t *)(uintptr_t)rr, name);
}

int refdns_rr_set_u(refdns_rr_t *rr, const char *field, uint32_t v)
{
  refdns_field_t *f = refdns_rr_field(rr, field);
  if (!f || (f->kind != REFDNS_F_U8 && f->kind != REFDNS_F_U16 && f->kind != REFDNS_F_U32)) {
    return -1;
  }
  f->u = f->kind == REFDNS_F_U8 ? (v & 0xff) : f->kind == REFDNS_F_U16 ? (v & 0xffff) : v;
  return 0;
}

int refdns_rr_set_addr(refdns_rr_t *rr, const char *field, const uint8_t *addr, size_t n)
{
  refdns_field_t *f = refdns_rr_field(rr, field);
  if (!f || !((f->kind == REFDNS_F_IPV4 && n == 4) || (f->kind == REFDNS_F_IPV6 && n == 16))) {
    return -1;
  }
  memcpy(f->addr, addr, n);
  return 0;
}

int refdns_rr_set_name(refdns_rr_t *rr, const char *field, const refdns_name_t *name)
{
  refdns_field_t *f = refdns_rr_field(rr, field);
  if (!f || f->kind != REFDNS_F_NAME) {
    return -1;
  }
  *f->dname = *name;
  return 0;
}

int refdns_rr_set_bytes(refdns_rr_t *rr, const char *field, const void *p, size_t n)
{
  refdns_field_t *f = refdns_rr_field(rr, field);
  if (!f || (f->kind != REFDNS_F_CSTR && f->kind != REFDNS_F_REST) ||
      (f->kind == REFDNS_F_CSTR && n > 255)) {
    return -1;
  }
  bytes_set(&f->bytes, p, n);
  return 0;
}

int refdns_rr_add_chunk(refdns_rr_t *rr, const char *field, const void *p, size_t n)
{
  refdns_field_t *f = refdns_rr_field(rr, field);
  if (!f || f->kind != REFDNS_F_CSTRS || n > 255) {
    return -1;
  }
  f->chunks = (refdns_bytes_t *)xrealloc(f->chunks, (f->n + 1) * sizeof(*f->chunks));
  memset(&f->chunks[f->n], 0, sizeof(*f->chunks));
  bytes_set(&f->chunks[f->n], p, n);
  f->n++;
  return 0;
}

int refdns_rr_add_tlv(refdns_rr_t *rr, const char *field, uint16_t code, const void *p, size_t n)
{
  refdns_field_t *f = refdns_rr_field(rr, field);
  if (!f || f->kind != REFDNS_F_TLVS || n > 65535) {
    return -1;
  }
  f->tlvs = (refdns_tlv_t *)xrealloc(f->tlvs, (f->n + 1) * sizeof(*f->tlvs));
  memset(&f->tlvs[f->n], 0, sizeof(*f->tlvs));
  f->tlvs[f->n].code = code;
  bytes_set(&f->tlvs[f->n].val, p, n);
  f->n++;
  return 0;
}

int refdns_rr_copy(refdns_rr_t *dst, const refdns_rr_t *src)
{
  size_t i, k;
  *dst         = *src;
  dst->raw.p   = NULL;
  dst->raw.n   = 0;
  dst->extra.p = NULL;
  dst->extra.n = 0;
  bytes_set(&dst->raw, src->raw.p, src->raw.n);
  bytes_set(&dst->extra, src->extra.p, src->extra.n);
  for (i = 0; i < src->nfields; i++) {
    const refdns_field_t *s = &src->fields[i];
    refdns_field_t       *d = &dst->fields[i];
    d->dname                = NULL;
    d->bytes.p              = NULL;
    d->bytes.n              = 0;
    d->chunks               = NULL;
    d->tlvs                 = NULL;
    d->n                    = 0;
    if (s->dname) {
      d->dname  = (refdns_name_t *)xmalloc(sizeof(refdns_name_t));
      *d->dname = *s->dname;
    }
    bytes_set(&d->bytes, s->bytes.p, s->bytes.n);
    if (s->kind == REFDNS_F_CSTRS && s->n) {
      d->chunks = (refdns_bytes_t *)xmalloc(s->n * sizeof(*d->chunks));
      memset(d->chunks, 0, s->n * sizeof(*d->chunks));
      for (k = 0; k < s->n; k++) {
        bytes_set(&d->chunks[k], s->chunks[k].p, s->chunks[k].n);
      }
      d->n = s->n;
    } else if (s->kind == REFDNS_F_TLVS && s->n) {
      d->tlvs = (refdns_tlv_t *)xmalloc(s->n * sizeof(*d->tlvs));
      memset(d->tlvs, 0, s->n * sizeof(*d->tlvs));
      for (k = 0; k < s->n; k++) {
        d->tlvs[k].code = s->tlvs[k].code;
        bytes_set(&d->tlvs[k].val, s->tlvs[k].val.p, s->tlvs[k].val.n);
      }
      d->n = s->n;
    }
  }
  return 0;
}

refdns_rr_t *refdns_add_a(refdns_msg_t *m, int section, const refdns_name_t *owner, uint32_t ttl,
                          const uint8_t ip[4])
{
  refdns_rr_t *rr = refdns_add_rr(m, section, owner, REFDNS_T_A, REFDNS_C_IN, ttl);
  refdns_rr_set_addr(rr, "address", ip, 4);
  return rr;
}

refdns_rr_t *refdns_add_aaaa(refdns_msg_t *m, int section, const refdns_name_t *owner,
                             uint32_t ttl, const uint8_t ip[16])
{
  refdns_rr_t *rr = refdns_add_rr(m, section, owner, REFDNS_T_AAAA, REFDNS_C_IN, ttl);
  refdns_rr_set_addr(rr, "address", ip, 16);
  return rr;
}

refdns_rr_t *refdns_add_nametype(refdns_msg_t *m, int section, const refdns_name_t *owner,
                                 uint16_t type, uint32_t ttl, const refdns_name_t *target)
{
  refdns_rr_t *rr;
  if (type != REFDNS_T_NS && type != REFDNS_T_CNAME && type != REFDNS_T_PTR) {
    return NULL;
  }
  rr = refdns_add_rr(m, section, owner, type, REFDNS_C_IN, ttl);
  *rr->fields[0].dname = *target;
  return rr;
}

refdns_rr_t *refdns_add_soa(refdns_msg_t *m, int section, const refdns_name_t *owner, uint32_t ttl,
                            const refdns_name_t *mname, const refdns_name_t *rname,
                            uint32_t serial, uint32_t refresh, uint32_t retry, uint32_t expire,
                            uint32_t minimum)
{
  refdns_rr_t *rr = refdns_add_rr(m, section, owner, REFDNS_T_SOA, REFDNS_C_IN, ttl);
  refdns_rr_set_name(rr, "mname", mname);
  refdns_rr_set_name(rr, "rname", rname);
  refdns_rr_set_u(rr, "serial", serial);
  refdns_rr_set_u(rr, "refresh", refresh);
  refdns_rr_set_u(rr, "retry", retry);
  refdns_rr_set_u(rr, "expire", expire);
  refdns_rr_set_u(rr, "minimum", minimum);
  return rr;
}

refdns_rr_t *refdns_add_opt(refdns_msg_t *m, uint16_t udp_size, uint8_t ext_rcode, uint8_t version,
                            uint16_t flags)
{
  refdns_name_t root;
  refdns_name_root(&root);
  return refdns_add_rr(m, REFDNS_SEC_AR, &root, REFDNS_T_OPT, udp_size,
                       ((uint32_t)ext_rcode << 24) | ((uint32_t)version << 16) | flags);
}

int refdns_build_query(refdns_msg_t *m, uint16_t id, const refdns_name_t *qname, uint16_t qtype,
                       uint16_t qclass, int rd, unsigned edns_udp_size)
{
  refdns_msg_init(m);
  m->id = id;
  m->rd = rd ? 1 : 0;
  refdns_add_question(m, qname, qtype, qclass);
  if (edns_udp_size > 0) {
    if (edns_udp_size > 65535) {
      return -1;
    }
    refdns_add_opt(m, (uint16_t)edns_udp_size, 0, 0, 0);
  }
  return 0;
}

int refdns_build_response(refdns_msg_t *resp, const refdns_msg_t *query, unsigned rcode, int aa,
                          int tc, int ra, const refdns_rr_t *answers, size_t nanswers)
{
  size_t i;
  int    had_opt = 0;
  refdns_msg_init(resp);
  resp->id     = query->id;
  resp->qr     = 1;
  resp->opcode = query->opcode;
  resp->rd     = query->rd;
  resp->cd     = query->cd;
  resp->aa     = aa ? 1 : 0;
  resp->tc     = tc ? 1 : 0;
  resp->ra     = ra ? 1 : 0;
  resp->rcode  = (uint16_t)(rcode & 0xfff);
  for (i = 0; i < query->nq; i++) {
    refdns_add_question(resp, &query->q[i].name, query->q[i].type, query->q[i].klass);
  }
  for (i = 0; i < nanswers; i++) {
    refdns_rr_t *rr = rr_new(resp);
    refdns_rr_copy(rr, &answers[i]);
    if (rr->type == REFDNS_T_OPT) {
      had_opt = 1;
    }
  }
  for (i = 0; i < query->nrr; i++) {
    if (query->rr[i].type == REFDNS_T_OPT && !had_opt) {
      refdns_add_opt(resp, 1232, (uint8_t)(rcode >> 4), 0, 0);
      had_opt = 1;
    }
  }
  if (!had_opt && rcode > 15) {
    refdns_add_opt(resp, 1232, (uint8_t)(rcode >> 4), 0, 0);
  }
  return 0;
}

/* ====================================================================================
 * decoder
 * ==================================================================================== */
typedef struct {
  const uint8_t *msg;
  size_t         len;
  refdns_msg_t  *out;
  char          *err;
  size_t         errlen;
} dec_t;

static int dec_fail(dec_t *d, refdns_status_t st, size_t off, const char *what)
{
  if (d->out->status == REFDNS_OK) {
    d->out->status  = st;
    d->out->err_off = off;
    if (d->err && d->errlen) {
      snprintf(d->err, d->errlen, "%s at offset %zu: %s", refdns_status_name(st), off, what);
    }
  }
  return -1;
}

static void note_ptr(dec_t *d, size_t pos, size_t target, size_t lowest)
{
  refdns_msg_t *o = d->out;
  o->nptr_total++;
  if (o->nptr >= 65536) {
    return;
  }
  if ((o->nptr & (o->nptr + 1)) == 0 || o->ptr == NULL) {
    size_t cap = o->nptr ? (o->nptr + 1) * 2 : 8;
    o->ptr     = (refdns_ptr_t *)xrealloc(o->ptr, cap * sizeof(*o->ptr));
  }
  o->ptr[o->nptr].pos    = (uint32_t)pos;
  o->ptr[o->nptr].target = (uint32_t)target;
  o->ptr[o->nptr].lowest = (uint32_t)lowest;
  o->nptr++;
}

/* RFC 1035 4.1.4.  *pos: in = first octet of the name, out = first octet after the name in the
 * linear message (after the first pointer, if any).  *compressed is set if a pointer was used. */
static int dec_name(dec_t *d, size_t *pos, refdns_name_t *out, int *compressed)
{
  size_t   cur    = *pos;
  size_t   lowest = cur;
  size_t   total  = 1;
  size_t   used   = 0;
  int      jumped = 0;
  uint16_t hops[130];
  size_t   nhops = 0, i;

  refdns_name_root(out);
  if (compressed) {
    *compressed = 0;
  }
  for (;;) {
    uint8_t b;
    if (cur < lowest) {
      lowest = cur;
    }
    if (cur >= d->len) {
      return dec_fail(d, REFDNS_ERR_NAME_OVERRUN, cur, "name not terminated before end of message");
    }
    b = d->msg[cur];
    if ((b & 0xc0) == 0xc0) {
      size_t target;
      if (cur + 1 >= d->len) {
        return dec_fail(d, REFDNS_ERR_NAME_OVERRUN, cur, "pointer cut short");
      }
      target = ((size_t)(b & 0x3f) << 8) | d->msg[cur + 1];
      note_ptr(d, cur, target, lowest);
      if (target > cur) {
        return dec_fail(d, REFDNS_ERR_PTR_FORWARD, cur, "compression pointer points forward");
      }
      if (target == cur) {
        return dec_fail(d, REFDNS_ERR_PTR_SELF, cur, "compression pointer points at itself");
      }
      for (i = 0; i < nhops; i++) {
        if (hops[i] == cur) {
          return dec_fail(d, REFDNS_ERR_PTR_LOOP, cur, "compression pointer loop");
        }
      }
      if (nhops < sizeof(hops) / sizeof(hops[0])) {
        hops[nhops++] = (uint16_t)cur;
      } else {
        /* > 129 pointers cannot belong to a name of <= 255 octets unless they form label-less
         * chains; such a chain is strictly decreasing and ends, but a name cannot need it */
        return dec_fail(d, REFDNS_ERR_PTR_LOOP, cur, "too many compression pointers in one name");
      }
      if (target >= lowest) {
        d->out->soft |= REFDNS_SOFT_PTR_INTO_SELF;
      }
      if (!jumped) {
        *pos   = cur + 2;
        jumped = 1;
        if (compressed) {
          *compressed = 1;
        }
      }
      cur = target;
      continue;
    }
    if (b & 0xc0) {
      return dec_fail(d, REFDNS_ERR_LABEL_RESERVED, cur, "reserved label type");
    }
    if (b == 0) {
      if (!jumped) {
        *pos = cur + 1;
      }
      return 0;
    }
    if (cur + 1 + b > d->len) {
      return dec_fail(d, REFDNS_ERR_LABEL_OVERRUN, cur, "label runs past end of message");
    }
    total += 1u + b;
    if (total > 255) {
      return dec_fail(d, REFDNS_ERR_NAME_TOO_LONG, cur, "name longer than 255 octets");
    }
    memcpy(out->data + used, d->msg + cur + 1, b);
    used += b;
    out->len[out->nlabels++] = b;
    cur += 1u + b;
  }
}

static unsigned rd16(const uint8_t *p)
{
  return ((unsigned)p[0] << 8) | p[1];
}

static uint32_t rd32(const uint8_t *p)
{
  return ((uint32_t)p[0] << 24) | ((uint32_t)p[1] << 16) | ((uint32_t)p[2] << 8) | p[3];
}

static int dec_rdata(dec_t *d, refdns_rr_t *rr, const schema_t *s)
{
  size_t p   = rr->rdata_off;
  size_t end = rr->rdata_off + rr->rdlength;
  size_t i;

  rr_init_fields(rr, s);
  for (i = 0; i < s->nfields; i++) {
    refdns_field_t *f = &rr->fields[i];
    size_t          need;
    switch (f->kind) {
      case REFDNS_F_U8:
      case REFDNS_F_U16:
      case REFDNS_F_U32:
        need = f->kind == REFDNS_F_U8 ? 1 : f->kind == REFDNS_F_U16 ? 2 : 4;
        if (p + need > end) {
          return dec_fail(d, REFDNS_ERR_RDATA_FIELD, p, "integer field past RDLENGTH");
        }
        f->u = need == 1 ? d->msg[p] : need == 2 ? rd16(d->msg + p) : rd32(d->msg + p);
        p += need;
        break;
      case REFDNS_F_IPV4:
      case REFDNS_F_IPV6:
        need = f->kind == REFDNS_F_IPV4 ? 4 : 16;
        if (p + need > end) {
          return dec_fail(d, REFDNS_ERR_RDATA_FIELD, p, "address field past RDLENGTH");
        }
        memcpy(f->addr, d->msg + p, need);
        p += need;
        break;
      case REFDNS_F_NAME: {
        int comp = 0;
        if (p >= end) {
          return dec_fail(d, REFDNS_ERR_RDATA_FIELD, p, "name field past RDLENGTH");
        }
        if (dec_name(d, &p, f->dname, &comp) != 0) {
          return -1;
        }
        if (p > end) {
          return dec_fail(d, REFDNS_ERR_RDATA_FIELD, p, "name field runs past RDLENGTH");
        }
        if (comp && !s->compdecomp) {
          d->out->soft |= REFDNS_SOFT_RDATA_COMP_NEW;
        }
        break;
      }
      case REFDNS_F_CSTR: {
        size_t l;
        if (p >= end) {
          return dec_fail(d, REFDNS_ERR_RDATA_FIELD, p, "character-string past RDLENGTH");
        }
        l = d->msg[p];
        if (p + 1 + l > end) {
          return dec_fail(d, REFDNS_ERR_RDATA_FIELD, p, "character-string runs past RDLENGTH");
        }
        if (l == 0 && (s->f[i].flags & FD_MIN1)) {
          return dec_fail(d, REFDNS_ERR_RDATA_FIELD, p, "zero-length string not allowed here");
        }
        bytes_set(&f->bytes, d->msg + p + 1, l);
        p += 1 + l;
        break;
      }
      case REFDNS_F_REST:
        bytes_set(&f->bytes, d->msg + p, end - p);
        if (end == p) {
          d->out->soft |= REFDNS_SOFT_REST_EMPTY;
        }
        p = end;
        break;
      case REFDNS_F_CSTRS:
        while (p < end) {
          size_t l = d->msg[p];
          if (p + 1 + l > end) {
            return dec_fail(d, REFDNS_ERR_RDATA_FIELD, p, "character-string runs past RDLENGTH");
          }
          refdns_rr_add_chunk(rr, f->name, d->msg + p + 1, l);
          p += 1 + l;
        }
        if (f->n == 0 && (s->f[i].flags & FD_MIN1)) {
          return dec_fail(d, REFDNS_ERR_RDATA_FIELD, p, "at least one character-string required");
        }
        break;
      case REFDNS_F_TLVS: {
        long last = -1;
        while (p < end) {
          size_t code, l;
          if (p + 4 > end) {
            return dec_fail(d, REFDNS_ERR_RDATA_FIELD, p, "option header past RDLENGTH");
          }
          code = rd16(d->msg + p);
          l    = rd16(d->msg + p + 2);
          if (p + 4 + l > end) {
            return dec_fail(d, REFDNS_ERR_RDATA_FIELD, p, "option value runs past RDLENGTH");
          }
          refdns_rr_add_tlv(rr, f->name, (uint16_t)code, d->msg + p + 4, l);
          if (rr->type != REFDNS_T_OPT && (long)code <= last) {
            d->out->soft |= REFDNS_SOFT_SVCB_ORDER;
          }
          last = (long)code;
          p += 4 + l;
        }
        break;
      }
    }
  }
  rr->rdata_used     = p - rr->rdata_off;
  rr->rdata_trailing = end - p;
  if (p < end) {
    d->out->soft |= REFDNS_SOFT_RDATA_TRAILING;
  }
  return 0;
}

int refdns_decode_ex(const uint8_t *msg, size_t len, refdns_rawpolicy_fn treat_raw, void *ud,
                     refdns_msg_t *out, char *err, size_t errlen)
{
  dec_t    d;
  size_t   pos, i;
  unsigned fl;
  int      sec;

  refdns_msg_init(out);
  out->msglen = len;
  d.msg       = msg;
  d.len       = len;
  d.out       = out;
  d.err       = err;
  d.errlen    = errlen;
  if (err && errlen) {
    err[0] = 0;
  }
  if (len < 12) {
    dec_fail(&d, REFDNS_ERR_TRUNC_HEADER, len, "message shorter than the 12-octet header");
    return -1;
  }
  /* RFC 1035 4.1.1, AD/CD from RFC 2535 6.1 */
  out->id        = (uint16_t)rd16(msg);
  fl             = rd16(msg + 2);
  out->qr        = (fl >> 15) & 1;
  out->opcode    = (fl >> 11) & 15;
  out->aa        = (fl >> 10) & 1;
  out->tc        = (fl >> 9) & 1;
  out->rd        = (fl >> 8) & 1;
  out->ra        = (fl >> 7) & 1;
  out->z         = (fl >> 6) & 1;
  out->ad        = (fl >> 5) & 1;
  out->cd        = (fl >> 4) & 1;
  out->rcode_low = fl & 15;
  out->rcode     = out->rcode_low;
  out->qdcount   = (uint16_t)rd16(msg + 4);
  out->ancount   = (uint16_t)rd16(msg + 6);
  out->nscount   = (uint16_t)rd16(msg + 8);
  out->arcount   = (uint16_t)rd16(msg + 10);
  pos            = 12;

  for (i = 0; i < out->qdcount; i++) {
    refdns_name_t      nm;
    refdns_question_t *q;
    size_t             start = pos;
    if (pos == len) {
      dec_fail(&d, REFDNS_ERR_COUNTS, pos, "QDCOUNT promises a question but the data ended");
      return -1;
    }
    if (dec_name(&d, &pos, &nm, NULL) != 0) {
      return -1;
    }
    if (pos + 4 > len) {
      dec_fail(&d, REFDNS_ERR_RR_HEADER_OVERRUN, pos, "QTYPE/QCLASS cut short");
      return -1;
    }
    q      = refdns_add_question(out, &nm, (uint16_t)rd16(msg + pos), (uint16_t)rd16(msg + pos + 2));
    q->off = start;
    pos += 4;
  }

  for (sec = REFDNS_SEC_AN; sec <= REFDNS_SEC_AR; sec++) {
    size_t cnt = sec == REFDNS_SEC_AN ? out->ancount : sec == REFDNS_SEC_NS ? out->nscount
                                                                              : out->arcount;
    for (i = 0; i < cnt; i++) {
      refdns_name_t   nm;
      refdns_rr_t    *rr;
      const schema_t *s;
      size_t          start = pos;
      if (pos == len) {
        dec_fail(&d, REFDNS_ERR_COUNTS, pos, "a count promises an RR but the data ended");
        return -1;
      }
      if (dec_name(&d, &pos, &nm, NULL) != 0) {
        return -1;
      }
      if (pos + 10 > len) {
        dec_fail(&d, REFDNS_ERR_RR_HEADER_OVERRUN, pos, "TYPE/CLASS/TTL/RDLENGTH cut short");
        return -1;
      }
      rr            = rr_new(out);
      rr->section   = (uint8_t)sec;
      rr->owner     = nm;
      rr->rr_off    = start;
      rr->type      = (uint16_t)rd16(msg + pos);
      rr->klass     = (uint16_t)rd16(msg + pos + 2);
      rr->ttl       = rd32(msg + pos + 4);
      rr->rdlength  = (uint16_t)rd16(msg + pos + 8);
      rr->rdata_off = pos + 10;
      pos += 10;
      if (rr->rdlength > len - pos) {
        dec_fail(&d, REFDNS_ERR_RDATA_OVERRUN, pos, "RDLENGTH exceeds the rest of the message");
        return -1;
      }
      bytes_set(&rr->raw, msg + pos, rr->rdlength);
      s = schema_of(rr->type);
      if (s != NULL && treat_raw != NULL && treat_raw(ud, sec, rr->type)) {
        s = NULL; /* caller wants this RR opaque: no EDNS interpretation either */
      }
      if (rr->type == REFDNS_T_OPT && s != NULL) {
        /* RFC 6891 6.1.3: the upper 8 bits of the extended 12-bit RCODE live in the TTL */
        out->n_opt++;
        if (out->n_opt == 1) {
          out->rcode = (uint16_t)(out->rcode_low | ((rr->ttl >> 24) << 4));
        } else {
          out->soft |= REFDNS_SOFT_MULTI_OPT;
        }
        if (sec != REFDNS_SEC_AR) {
          out->soft |= REFDNS_SOFT_OPT_NOT_AR;
        }
        if (nm.nlabels != 0) {
          out->soft |= REFDNS_SOFT_OPT_OWNER;
        }
      }
      if (s != NULL) {
        if (dec_rdata(&d, rr, s) != 0) {
          return -1;
        }
      } else {
        rr->typed      = 0;
        rr->rdata_used = rr->rdlength;
      }
      pos += rr->rdlength;
    }
  }
  out->trailing = len - pos;
  if (out->trailing) {
    out->soft |= REFDNS_SOFT_MSG_TRAILING;
  }
  return 0;
}

int refdns_decode(const uint8_t *msg, size_t len, refdns_msg_t *out, char *err, size_t errlen)
{
  if (refdns_decode_ex(msg, len, NULL, NULL, out, err, errlen) != 0) {
    return -1;
  }
  if (out->soft & REFDNS_SOFT_STRICT) {
    if (err && errlen) {
      snprintf(err, errlen, "RDATA longer than its fields");
    }
    return -1;
  }
  return 0;
}

/* ====================================================================================
 * encoder
 * ==================================================================================== */
typedef struct {
  uint32_t off;  /* message offset at which this suffix can be pointed at */
  uint32_t hash; /* of the suffix */
  uint8_t  nlab; /* labels in the suffix */
  uint8_t  is_ptr; /* the occurrence is itself a pointer */
  uint16_t nameidx; /* index into enc_t.names of the full name the suffix belongs to */
  uint8_t  from;    /* suffix = labels[from..] of that name */
} occ_t;

typedef struct {
  const refdns_layout_t *lay;
  uint8_t               *out;
  size_t                 cap, len;
  int                    overflow;
  occ_t                 *occ;
  size_t                 nocc, capocc;
  refdns_name_t         *names; /* copies of every emitted name that produced occurrences */
  size_t                 nnames, capnames;
  uint32_t               ordinal;
  vh_rng_t               rng;
} enc_t;

static void put(enc_t *e, const void *p, size_t n)
{
  if (n == 0) {
    return;
  }
  if (e->len + n > e->cap) {
    e->overflow = 1;
    return;
  }
  memcpy(e->out + e->len, p, n);
  e->len += n;
}

static void put8(enc_t *e, unsigned v)
{
  uint8_t b = (uint8_t)v;
  put(e, &b, 1);
}

static void put16(enc_t *e, unsigned v)
{
  uint8_t b[2];
  b[0] = (uint8_t)(v >> 8);
  b[1] = (uint8_t)v;
  put(e, b, 2);
}

static void put32(enc_t *e, uint32_t v)
{
  uint8_t b[4];
  b[0] = (uint8_t)(v >> 24);
  b[1] = (uint8_t)(v >> 16);
  b[2] = (uint8_t)(v >> 8);
  b[3] = (uint8_t)v;
  put(e, b, 4);
}

static void mark(enc_t *e, refdns_atkind_t kind, size_t off)
{
  refdns_encmap_t *m = e->lay ? e->lay->map : NULL;
  if (m == NULL) {
    return;
  }
  if (m->n == m->cap) {
    m->cap = m->cap ? m->cap * 2 : 64;
    m->at  = (refdns_at_t *)xrealloc(m->at, m->cap * sizeof(*m->at));
  }
  m->at[m->n].kind = (uint8_t)kind;
  m->at[m->n].off  = (uint32_t)off;
  m->n++;
}

static uint32_t suffix_hash(const refdns_name_t *n, size_t from)
{
  size_t   i, off = 0;
  uint32_t h = 2166136261u;
  for (i = 0; i < from; i++) {
    off += n->len[i];
  }
  for (i = from; i < n->nlabels; i++) {
    size_t k;
    h = (h ^ n->len[i]) * 16777619u;
    for (k = 0; k < n->len[i]; k++) {
      h = (h ^ n->data[off + k]) * 16777619u;
    }
    off += n->len[i];
  }
  return h;
}

static int suffix_eq(const refdns_name_t *a, size_t fa, const refdns_name_t *b, size_t fb)
{
  size_t i, oa = 0, ob = 0, na = 0;
  if (a->nlabels - fa != b->nlabels - fb) {
    return 0;
  }
  for (i = 0; i < fa; i++) {
    oa += a->len[i];
  }
  for (i = 0; i < fb; i++) {
    ob += b->len[i];
  }
  for (i = 0; i + fa < a->nlabels; i++) {
    if (a->len[fa + i] != b->len[fb + i]) {
      return 0;
    }
    na += a->len[fa + i];
  }
  return memcmp(a->data + oa, b->data + ob, na) == 0;
}

static void add_occ(enc_t *e, size_t off, uint16_t nameidx, size_t from, int is_ptr)
{
  occ_t *o;
  if (off >= 16384) {
    return; /* not addressable by a 14-bit pointer */
  }
  if (e->nocc == e->capocc) {
    e->capocc = e->capocc ? e->capocc * 2 : 64;
    e->occ    = (occ_t *)xrealloc(e->occ, e->capocc * sizeof(*e->occ));
  }
  o          = &e->occ[e->nocc++];
  o->off     = (uint32_t)off;
  o->nameidx = nameidx;
  o->from    = (uint8_t)from;
  o->nlab    = (uint8_t)(e->names[nameidx].nlabels - from);
  o->hash    = suffix_hash(&e->names[nameidx], from);
  o->is_ptr  = (uint8_t)is_ptr;
}

/* emit a name; allow_comp: compression may be applied to it */
static void enc_name(enc_t *e, const refdns_name_t *n, int allow_comp)
{
  const refdns_layout_t *lay  = e->lay;
  refdns_comp_mode_t     mode = lay ? lay->mode : REFDNS_COMP_NONE;
  size_t                 keep = n->nlabels;
  long                   target = -2; /* -2: end with root; >=0 pointer */
  size_t                 i, off = 0;
  uint32_t               ord = e->ordinal++;
  int                    overridden = 0;
  uint16_t               nameidx;
  size_t                 base;

  if (lay) {
    for (i = 0; i < lay->nover; i++) {
      if (lay->over[i].ordinal == ord) {
        keep       = lay->over[i].keep < n->nlabels ? lay->over[i].keep : n->nlabels;
        target     = lay->over[i].target < 0 ? -2 : (lay->over[i].target & 0x3fff);
        overridden = 1;
      }
    }
  }
  if (!overridden && allow_comp && mode != REFDNS_COMP_NONE && n->nlabels > 0 && e->nocc > 0) {
    if (mode == REFDNS_COMP_FIRST) {
      size_t k;
      for (k = 0; k < n->nlabels && target < 0; k++) {
        uint32_t h = suffix_hash(n, k);
        size_t   j;
        for (j = 0; j < e->nocc; j++) {
          const occ_t *o = &e->occ[j];
          if (o->hash == h && !o->is_ptr && o->nlab == n->nlabels - k &&
              suffix_eq(n, k, &e->names[o->nameidx], o->from)) {
            keep   = k;
            target = (long)o->off;
            break;
          }
        }
      }
    } else {
      /* every legal (k, occurrence) pair; pick one uniformly, or none with probability 1/8 */
      struct {
        uint8_t  k;
        uint32_t off;
      } cand[96];
      size_t ncand = 0, k, seen = 0;
      for (k = 0; k < n->nlabels; k++) {
        uint32_t h = suffix_hash(n, k);
        size_t   j;
        for (j = 0; j < e->nocc; j++) {
          const occ_t *o = &e->occ[j];
          if (o->hash == h && o->nlab == n->nlabels - k &&
              suffix_eq(n, k, &e->names[o->nameidx], o->from)) {
            /* reservoir sampling keeps the choice uniform when there are > 96 candidates */
            seen++;
            if (ncand < 96) {
              cand[ncand].k   = (uint8_t)k;
              cand[ncand].off = o->off;
              ncand++;
            } else {
              size_t r = vh_below(&e->rng, (uint32_t)seen);
              if (r < 96) {
                cand[r].k   = (uint8_t)k;
                cand[r].off = o->off;
              }
            }
          }
        }
      }
      if (ncand && vh_below(&e->rng, 8) != 0) {
        size_t r = vh_below(&e->rng, (uint32_t)ncand);
        keep     = cand[r].k;
        target   = (long)cand[r].off;
      }
    }
  }

  /* remember the name so later names can point into it */
  if (e->nnames == e->capnames) {
    e->capnames = e->capnames ? e->capnames * 2 : 16;
    e->names    = (refdns_name_t *)xrealloc(e->names, e->capnames * sizeof(*e->names));
  }
  nameidx           = (uint16_t)e->nnames;
  e->names[nameidx] = *n;
  base              = e->nocc;
  if (e->nnames < 65535) {
    e->nnames++;
  }

  for (i = 0; i < keep; i++) {
    add_occ(e, e->len, nameidx, i, 0);
    mark(e, REFDNS_AT_LABELLEN, e->len);
    put8(e, n->len[i]);
    put(e, n->data + off, n->len[i]);
    off += n->len[i];
  }
  if (target >= 0) {
    if (keep < n->nlabels && !overridden) {
      add_occ(e, e->len, nameidx, keep, 1);
    }
    mark(e, REFDNS_AT_POINTER, e->len);
    put16(e, 0xc000u | (unsigned)target);
  } else {
    put8(e, 0);
  }
  /* an overridden name that was truncated or given an arbitrary target does not spell the
   * suffixes it claims: drop the occurrences it registered */
  if (overridden) {
    e->nocc = base;
  }
}

static void enc_cstr(enc_t *e, const refdns_bytes_t *b)
{
  mark(e, REFDNS_AT_CSTRLEN, e->len);
  put8(e, (unsigned)b->n);
  put(e, b->p, b->n);
}

static int enc_rr(enc_t *e, const refdns_rr_t *rr)
{
  const schema_t *s = rr->typed ? schema_of(rr->type) : NULL;
  size_t          lenpos, start, i, k, rdlen;
  int             rdcomp = e->lay ? e->lay->rdata_comp : 0;
  int             allow;

  enc_name(e, &rr->owner, 1);
  mark(e, REFDNS_AT_TYPE, e->len);
  put16(e, rr->type);
  mark(e, REFDNS_AT_CLASS, e->len);
  put16(e, rr->klass);
  mark(e, REFDNS_AT_TTL, e->len);
  put32(e, rr->ttl);
  lenpos = e->len;
  mark(e, REFDNS_AT_RDLENGTH, e->len);
  put16(e, 0);
  start = e->len;
  mark(e, REFDNS_AT_RDATA, e->len);
  if (rr->typed && s == NULL) {
    return REFDNS_EARG;
  }
  if (s) {
    allow = rdcomp == 2 || (rdcomp == 1 && s->comp1035);
    for (i = 0; i < rr->nfields; i++) {
      const refdns_field_t *f = &rr->fields[i];
      switch (f->kind) {
        case REFDNS_F_U8:
          put8(e, f->u);
          break;
        case REFDNS_F_U16:
          put16(e, f->u);
          break;
        case REFDNS_F_U32:
          put32(e, f->u);
          break;
        case REFDNS_F_IPV4:
          put(e, f->addr, 4);
          break;
        case REFDNS_F_IPV6:
          put(e, f->addr, 16);
          break;
        case REFDNS_F_NAME:
          enc_name(e, f->dname, allow);
          break;
        case REFDNS_F_CSTR:
          enc_cstr(e, &f->bytes);
          break;
        case REFDNS_F_REST:
          put(e, f->bytes.p, f->bytes.n);
          break;
        case REFDNS_F_CSTRS:
          for (k = 0; k < f->n; k++) {
            enc_cstr(e, &f->chunks[k]);
          }
          break;
        case REFDNS_F_TLVS:
          for (k = 0; k < f->n; k++) {
            put16(e, f->tlvs[k].code);
            mark(e, REFDNS_AT_TLVLEN, e->len);
            put16(e, (unsigned)f->tlvs[k].val.n);
            put(e, f->tlvs[k].val.p, f->tlvs[k].val.n);
          }
          break;
      }
    }
  } else {
    put(e, rr->raw.p, rr->raw.n);
  }
  put(e, rr->extra.p, rr->extra.n);
  if (e->overflow) {
    return REFDNS_ESPACE;
  }
  rdlen = e->len - start;
  if (rdlen > 65535 && !rr->rdlength_set) {
    return REFDNS_ERDLEN;
  }
  if (rr->rdlength_set) {
    rdlen = rr->rdlength_val;
  }
  e->out[lenpos]     = (uint8_t)(rdlen >> 8);
  e->out[lenpos + 1] = (uint8_t)rdlen;
  return 0;
}

int refdns_encode(const refdns_msg_t *m, const refdns_layout_t *layout, uint8_t *out, size_t *len)
{
  enc_t    e;
  size_t   i, cnt[4] = { 0, 0, 0, 0 };
  unsigned fl;
  int      sec, rc = 0;

  if (m == NULL || out == NULL || len == NULL) {
    return REFDNS_EARG;
  }
  memset(&e, 0, sizeof(e));
  e.lay = layout;
  e.out = out;
  e.cap = *len;
  vh_rng_seed(&e.rng, layout ? layout->seed : 0);

  cnt[0] = m->nq;
  for (i = 0; i < m->nrr; i++) {
    if (m->rr[i].section < 1 || m->rr[i].section > 3) {
      return REFDNS_EARG;
    }
    cnt[m->rr[i].section]++;
  }
  if (layout && layout->use_counts) {
    cnt[0] = m->qdcount;
    cnt[1] = m->ancount;
    cnt[2] = m->nscount;
    cnt[3] = m->arcount;
  }
  put16(&e, m->id);
  fl = ((unsigned)(m->qr & 1) << 15) | ((unsigned)(m->opcode & 15) << 11) |
       ((unsigned)(m->aa & 1) << 10) | ((unsigned)(m->tc & 1) << 9) | ((unsigned)(m->rd & 1) << 8) |
       ((unsigned)(m->ra & 1) << 7) | ((unsigned)(m->z & 1) << 6) | ((unsigned)(m->ad & 1) << 5) |
       ((unsigned)(m->cd & 1) << 4) | (m->rcode & 15u);
  put16(&e, fl);
  for (i = 0; i < 4; i++) {
    mark(&e, REFDNS_AT_COUNT, e.len);
    put16(&e, (unsigned)cnt[i]);
  }
  for (i = 0; i < m->nq; i++) {
    enc_name(&e, &m->q[i].name, 1);
    mark(&e, REFDNS_AT_TYPE, e.len);
    put16(&e, m->q[i].type);
    mark(&e, REFDNS_AT_CLASS, e.len);
    put16(&e, m->q[i].klass);
  }
  /* sections in wire order; within a section the order of m->rr[] */
  for (sec = 1; sec <= 3 && rc == 0; sec++) {
    for (i = 0; i < m->nrr && rc == 0; i++) {
      if (m->rr[i].section == sec) {
        rc = enc_rr(&e, &m->rr[i]);
      }
    }
  }
  free(e.occ);
  free(e.names);
  if (rc == 0 && e.overflow) {
    rc = REFDNS_ESPACE;
  }
  if (rc != 0) {
    return rc;
  }
  *len = e.len;
  return 0;
}

/* ====================================================================================
 * canonical dump
 * ==================================================================================== */
static void sb_raw(vh_sb_t *sb, const char *s, size_t n)
{
  if (sb->cap - sb->len < n + 1) {
    size_t ncap = sb->cap ? sb->cap : 4096;
    while (ncap - sb->len < n + 1) {
      ncap *= 2;
    }
    sb->b   = (char *)xrealloc(sb->b, ncap);
    sb->cap = ncap;
  }
  memcpy(sb->b + sb->len, s, n);
  sb->len += n;
  sb->b[sb->len] = 0;
}

static void sb_str(vh_sb_t *sb, const char *s)
{
  sb_raw(sb, s, strlen(s));
}

static void sb_hex(vh_sb_t *sb, const uint8_t *p, size_t n)
{
  static const char hx[] = "0123456789abcdef";
  char              buf[512];
  size_t            i, o = 0;
  if (n == 0) {
    sb_raw(sb, "-", 1);
    return;
  }
  for (i = 0; i < n; i++) {
    buf[o++] = hx[p[i] >> 4];
    buf[o++] = hx[p[i] & 15];
    if (o == sizeof(buf)) {
      sb_raw(sb, buf, o);
      o = 0;
    }
  }
  sb_raw(sb, buf, o);
}

static void sb_name(vh_sb_t *sb, const refdns_name_t *n)
{
  size_t i, off = 0;
  if (n->nlabels == 0) {
    sb_raw(sb, ".", 1);
    return;
  }
  for (i = 0; i < n->nlabels; i++) {
    if (i) {
      sb_raw(sb, ".", 1);
    }
    sb_hex(sb, n->data + off, n->len[i]);
    off += n->len[i];
  }
}

static void sb_line_u(vh_sb_t *sb, const char *path, const char *field, unsigned long v)
{
  char buf[160];
  int  n = snprintf(buf, sizeof(buf), "%s%s %lu\n", path, field, v);
  sb_raw(sb, buf, (size_t)n);
}

void refdns_dump_ex(const refdns_msg_t *m, unsigned flags, vh_sb_t *sb)
{
  static const char *secname[4] = { "?", "an", "ns", "ar" };
  size_t             i, k, idx[4] = { 0, 0, 0, 0 };
  char               path[96];
  int                sec;

  sb_line_u(sb, "hdr.", "id", m->id);
  sb_line_u(sb, "hdr.", "qr", m->qr);
  sb_line_u(sb, "hdr.", "opcode", m->opcode);
  sb_line_u(sb, "hdr.", "aa", m->aa);
  sb_line_u(sb, "hdr.", "tc", m->tc);
  sb_line_u(sb, "hdr.", "rd", m->rd);
  sb_line_u(sb, "hdr.", "ra", m->ra);
  if (flags & REFDNS_DUMP_WIRE) {
    sb_line_u(sb, "hdr.", "z", m->z);
  }
  sb_line_u(sb, "hdr.", "ad", m->ad);
  sb_line_u(sb, "hdr.", "cd", m->cd);
  sb_line_u(sb, "hdr.", "rcode", m->rcode);
  {
    size_t cnt[4] = { m->nq, 0, 0, 0 };
    for (i = 0; i < m->nrr; i++) {
      cnt[m->rr[i].section & 3]++;
    }
    sb_line_u(sb, "hdr.", "qdcount", (unsigned long)cnt[0]);
    sb_line_u(sb, "hdr.", "ancount", (unsigned long)cnt[1]);
    sb_line_u(sb, "hdr.", "nscount", (unsigned long)cnt[2]);
    sb_line_u(sb, "hdr.", "arcount", (unsigned long)cnt[3]);
  }
  for (i = 0; i < m->nq; i++) {
    snprintf(path, sizeof(path), "q%zu.", i);
    sb_str(sb, path);
    sb_str(sb, "name ");
    sb_name(sb, &m->q[i].name);
    sb_raw(sb, "\n", 1);
    sb_line_u(sb, path, "type", m->q[i].type);
    sb_line_u(sb, path, "class", m->q[i].klass);
  }
  for (sec = 1; sec <= 3; sec++) {
    for (i = 0; i < m->nrr; i++) {
      const refdns_rr_t *rr = &m->rr[i];
      int                typed;
      size_t             fi;
      if (rr->section != sec) {
        continue;
      }
      typed = rr->typed && !rr->present_raw;
      snprintf(path, sizeof(path), "%s%zu.%s.", secname[sec], idx[sec]++,
               typed ? refdns_type_name(rr->type) : "raw");
      sb_str(sb, path);
      sb_str(sb, "name ");
      sb_name(sb, &rr->owner);
      sb_raw(sb, "\n", 1);
      sb_line_u(sb, path, "type", rr->type);
      if (typed && rr->type == REFDNS_T_OPT) {
        sb_line_u(sb, path, "udp_size", rr->klass);
        if (flags & REFDNS_DUMP_EXT_RCODE) {
          sb_line_u(sb, path, "ext_rcode", rr->ttl >> 24);
        }
        sb_line_u(sb, path, "version", (rr->ttl >> 16) & 0xff);
        sb_line_u(sb, path, "flags", rr->ttl & 0xffff);
      } else {
        sb_line_u(sb, path, "class", rr->klass);
        sb_line_u(sb, path, "ttl", rr->ttl);
      }
      if (flags & REFDNS_DUMP_WIRE) {
        sb_line_u(sb, path, "rdlength", rr->rdlength);
        sb_line_u(sb, path, "rdata_off", (unsigned long)rr->rdata_off);
        sb_line_u(sb, path, "rdata_trailing", (unsigned long)rr->rdata_trailing);
      }
      if (!typed) {
        sb_str(sb, path);
        sb_str(sb, "data ");
        sb_hex(sb, rr->raw.p, rr->raw.n);
        sb_raw(sb, "\n", 1);
        continue;
      }
      for (fi = 0; fi < rr->nfields; fi++) {
        const refdns_field_t *f = &rr->fields[fi];
        char                  fp[160];
        switch (f->kind) {
          case REFDNS_F_U8:
          case REFDNS_F_U16:
          case REFDNS_F_U32:
            sb_line_u(sb, path, f->name, f->u);
            break;
          case REFDNS_F_IPV4:
          case REFDNS_F_IPV6:
            sb_str(sb, path);
            sb_str(sb, f->name);
            sb_raw(sb, " ", 1);
            sb_hex(sb, f->addr, f->kind == REFDNS_F_IPV4 ? 4 : 16);
            sb_raw(sb, "\n", 1);
            break;
          case REFDNS_F_NAME:
            sb_str(sb, path);
            sb_str(sb, f->name);
            sb_raw(sb, " ", 1);
            sb_name(sb, f->dname);
            sb_raw(sb, "\n", 1);
            break;
          case REFDNS_F_CSTR:
          case REFDNS_F_REST:
            sb_str(sb, path);
            sb_str(sb, f->name);
            sb_raw(sb, " ", 1);
            sb_hex(sb, f->bytes.p, f->bytes.n);
            sb_raw(sb, "\n", 1);
            break;
          case REFDNS_F_CSTRS:
            snprintf(fp, sizeof(fp), "%s.count", f->name);
            sb_line_u(sb, path, fp, (unsigned long)f->n);
            for (k = 0; k < f->n; k++) {
              snprintf(fp, sizeof(fp), "%s%s[%zu] ", path, f->name, k);
              sb_str(sb, fp);
              sb_hex(sb, f->chunks[k].p, f->chunks[k].n);
              sb_raw(sb, "\n", 1);
            }
            break;
          case REFDNS_F_TLVS: {
            /* optional ordered-map view: a repeated code keeps the position of its first
             * occurrence and the value of its last */
            size_t  nout = 0;
            size_t *sel  = (size_t *)xmalloc((f->n + 1) * sizeof(size_t));
            for (k = 0; k < f->n; k++) {
              size_t j;
              int    dup = 0;
              if (flags & REFDNS_DUMP_TLV_MAP) {
                for (j = 0; j < nout; j++) {
                  if (f->tlvs[sel[j]].code == f->tlvs[k].code) {
                    sel[j] = k;
                    dup    = 1;
                    break;
                  }
                }
              }
              if (!dup) {
                sel[nout++] = k;
              }
            }
            snprintf(fp, sizeof(fp), "%s.count", f->name);
            sb_line_u(sb, path, fp, (unsigned long)nout);
            for (k = 0; k < nout; k++) {
              snprintf(fp, sizeof(fp), "%s[%zu].code", f->name, k);
              sb_line_u(sb, path, fp, f->tlvs[sel[k]].code);
              snprintf(fp, sizeof(fp), "%s%s[%zu].value ", path, f->name, k);
              sb_str(sb, fp);
              sb_hex(sb, f->tlvs[sel[k]].val.p, f->tlvs[sel[k]].val.n);
              sb_raw(sb, "\n", 1);
            }
            free(sel);
            break;
          }
        }
      }
    }
  }
  if (flags & REFDNS_DUMP_WIRE) {
    sb_line_u(sb, "wire.", "trailing", (unsigned long)m->trailing);
    sb_line_u(sb, "wire.", "pointers", (unsigned long)m->nptr_total);
    for (i = 0; i < m->nptr; i++) {
      char buf[96];
      int  n = snprintf(buf, sizeof(buf), "wire.ptr[%zu] %u->%u\n", i, m->ptr[i].pos,
                        m->ptr[i].target);
      sb_raw(sb, buf, (size_t)n);
    }
  }
}

void refdns_dump_name(const refdns_name_t *n, vh_sb_t *out)
{
  sb_name(out, n);
}

void refdns_dump_hex(const uint8_t *p, size_t n, vh_sb_t *out)
{
  sb_hex(out, p, n);
}

void refdns_dump(const refdns_msg_t *m, vh_sb_t *out)
{
  refdns_dump_ex(m, REFDNS_DUMP_WIRE | REFDNS_DUMP_EXT_RCODE, out);
}
