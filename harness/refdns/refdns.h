/* refdns.h - an independent DNS wire-format codec, written from the RFCs.
 *
 * RFC 1035 (message format, names, compression, A NS CNAME SOA PTR HINFO MX TXT),
 * RFC 2535 §4.1 (SIG), RFC 2782 (SRV), RFC 3403 (NAPTR), RFC 3596 (AAAA), RFC 6698 (TLSA),
 * RFC 6891 (OPT / EDNS(0), extended RCODE), RFC 7873 (COOKIE is OPT option code 10 - carried as a
 * TLV like every option), RFC 7553 (URI), RFC 8659 (CAA), RFC 9460 (SVCB / HTTPS), RFC 3597
 * (unknown types are opaque RDATA).
 *
 * This file shares no code, no tables and no headers with c-ares.  It is used as the reference
 * side of the codec differential checks and as the packet codec of the network simulator.
 *
 * Memory: everything reachable from a refdns_msg_t is malloc'ed by this module and released by
 * refdns_free().  A refdns_msg_t must be initialised with refdns_msg_init() (or by
 * refdns_decode(), which initialises its output itself).
 */
#ifndef REFDNS_H
#define REFDNS_H

#include <stdint.h>
#include <stddef.h>
#include "vh.h" /* vh_sb_t for refdns_dump */

/* ---------- well-known numbers (from the RFCs / IANA) ---------- */
enum {
  REFDNS_T_A     = 1,
  REFDNS_T_NS    = 2,
  REFDNS_T_CNAME = 5,
  REFDNS_T_SOA   = 6,
  REFDNS_T_PTR   = 12,
  REFDNS_T_HINFO = 13,
  REFDNS_T_MX    = 15,
  REFDNS_T_TXT   = 16,
  REFDNS_T_SIG   = 24,
  REFDNS_T_AAAA  = 28,
  REFDNS_T_SRV   = 33,
  REFDNS_T_NAPTR = 35,
  REFDNS_T_OPT   = 41,
  REFDNS_T_TLSA  = 52,
  REFDNS_T_SVCB  = 64,
  REFDNS_T_HTTPS = 65,
  REFDNS_T_ANY   = 255,
  REFDNS_T_URI   = 256,
  REFDNS_T_CAA   = 257
};
enum { REFDNS_C_IN = 1, REFDNS_C_CH = 3, REFDNS_C_HS = 4, REFDNS_C_NONE = 254, REFDNS_C_ANY = 255 };
enum { REFDNS_SEC_AN = 1, REFDNS_SEC_NS = 2, REFDNS_SEC_AR = 3 };
enum { REFDNS_OPT_COOKIE = 10 };

/* ---------- names: raw label bytes, never presentation text ---------- */
#define REFDNS_MAX_LABELS 127 /* 127 one-octet labels + root = 255 octets */
typedef struct {
  uint8_t nlabels;                /* 0 = the root name */
  uint8_t len[REFDNS_MAX_LABELS]; /* each 1..63 */
  uint8_t data[256];              /* label bytes, concatenated (at most 253 used) */
} refdns_name_t;

typedef struct {
  uint8_t *p;
  size_t   n;
} refdns_bytes_t;

typedef struct {
  uint16_t       code;
  refdns_bytes_t val;
} refdns_tlv_t;

/* ---------- typed RDATA: a field list driven by a per-type schema ---------- */
typedef enum {
  REFDNS_F_U8 = 1,
  REFDNS_F_U16,
  REFDNS_F_U32,
  REFDNS_F_IPV4,  /* 4 octets */
  REFDNS_F_IPV6,  /* 16 octets */
  REFDNS_F_NAME,  /* domain name (possibly compressed on the wire) */
  REFDNS_F_CSTR,  /* one <character-string>: length octet + bytes */
  REFDNS_F_REST,  /* opaque octets up to the end of RDATA */
  REFDNS_F_CSTRS, /* one or more <character-string>s up to the end of RDATA */
  REFDNS_F_TLVS   /* {u16 code, u16 length, bytes}* up to the end of RDATA */
} refdns_fkind_t;

typedef struct {
  const char    *name;     /* schema field name, e.g. "target" (static storage) */
  refdns_fkind_t kind;
  uint32_t       u;        /* U8 / U16 / U32 */
  uint8_t        addr[16]; /* IPV4 / IPV6 */
  refdns_name_t *dname;    /* NAME (malloc'ed, never NULL in a typed RR) */
  refdns_bytes_t bytes;    /* CSTR / REST */
  size_t         n;        /* CSTRS: number of chunks; TLVS: number of tlvs */
  refdns_bytes_t *chunks;  /* CSTRS */
  refdns_tlv_t   *tlvs;    /* TLVS */
} refdns_field_t;

#define REFDNS_MAX_FIELDS 10

typedef struct {
  uint8_t        section; /* REFDNS_SEC_* */
  refdns_name_t  owner;
  uint16_t       type;
  uint16_t       klass; /* OPT: requestor's UDP payload size */
  uint32_t       ttl;   /* OPT: ext-rcode<<24 | version<<16 | flags */
  int            typed; /* 1: fields[] hold the RDATA per the schema of `type`; 0: raw holds it */
  size_t         nfields;
  refdns_field_t fields[REFDNS_MAX_FIELDS];
  refdns_bytes_t raw;   /* decoder: always a copy of the RDATA as on the wire.
                         * encoder: RDATA when !typed */
  refdns_bytes_t extra; /* encoder only: octets appended after the typed fields, inside RDLENGTH */
  int            rdlength_set; /* encoder only: emit rdlength_val instead of the real length */
  uint16_t       rdlength_val;
  /* presentation control for refdns_dump: show this RR as an opaque (type, bytes) pair */
  int            present_raw;
  /* facts recorded by the decoder */
  uint16_t rdlength;
  size_t   rr_off;         /* offset of the owner name */
  size_t   rdata_off;      /* offset of the first RDATA octet */
  size_t   rdata_used;     /* octets of RDATA consumed by the typed fields */
  size_t   rdata_trailing; /* rdlength - rdata_used (0 when the decode was exact or raw) */
} refdns_rr_t;

typedef struct {
  refdns_name_t name;
  uint16_t      type;
  uint16_t      klass;
  size_t        off; /* decoder: offset of the name */
} refdns_question_t;

/* one compression pointer that the decoder followed */
typedef struct {
  uint32_t pos;    /* offset of the first pointer octet */
  uint32_t target; /* 14-bit offset it names */
  uint32_t lowest; /* lowest offset at which a label or pointer of this name had been read when
                    * the pointer was met (a target >= lowest points back into the name itself) */
} refdns_ptr_t;

/* ---------- malformation classes (hard errors: decoding cannot go on) ---------- */
typedef enum {
  REFDNS_OK = 0,
  REFDNS_ERR_TRUNC_HEADER,      /* fewer than 12 octets */
  REFDNS_ERR_COUNTS,            /* a count promises another entry but the data ends at an entry
                                 * boundary */
  REFDNS_ERR_NAME_OVERRUN,      /* a name runs off the end of the message (length or pointer octet
                                 * missing) */
  REFDNS_ERR_LABEL_OVERRUN,     /* a label's length octet says more octets than the message has */
  REFDNS_ERR_LABEL_RESERVED,    /* label type 01 or 10 (0x40 / 0x80) */
  REFDNS_ERR_PTR_FORWARD,       /* pointer target > pointer position */
  REFDNS_ERR_PTR_SELF,          /* pointer target == pointer position */
  REFDNS_ERR_PTR_LOOP,          /* the same pointer met twice while decoding one name */
  REFDNS_ERR_NAME_TOO_LONG,     /* more than 255 octets */
  REFDNS_ERR_RR_HEADER_OVERRUN, /* QTYPE/QCLASS or TYPE/CLASS/TTL/RDLENGTH cut short */
  REFDNS_ERR_RDATA_OVERRUN,     /* RDLENGTH exceeds what is left of the message */
  REFDNS_ERR_RDATA_FIELD        /* typed fields do not fit RDLENGTH, or a field rule of the RFC is
                                 * broken (TXT without a string, CAA tag length 0) */
} refdns_status_t;

/* soft anomalies: decoding went on; bit set in refdns_msg_t.soft */
enum {
  REFDNS_SOFT_RDATA_TRAILING   = 1 << 0, /* typed fields ended before RDLENGTH */
  REFDNS_SOFT_MSG_TRAILING     = 1 << 1, /* octets after the last RR */
  REFDNS_SOFT_MULTI_OPT        = 1 << 2, /* more than one OPT RR (RFC 6891 6.1.1) */
  REFDNS_SOFT_OPT_NOT_AR       = 1 << 3, /* OPT outside the additional section */
  REFDNS_SOFT_OPT_OWNER        = 1 << 4, /* OPT owner name is not the root */
  REFDNS_SOFT_PTR_INTO_SELF    = 1 << 5, /* a pointer targets the span of the name it belongs to
                                          * (backward, terminates, but not "a prior occurrence") */
  REFDNS_SOFT_RDATA_COMP_NEW   = 1 << 6, /* compressed name in RDATA of a type that forbids it
                                          * (anything but NS CNAME SOA PTR MX SIG SRV NAPTR) */
  REFDNS_SOFT_REST_EMPTY       = 1 << 7, /* an "octets to the end of RDATA" field is empty */
  REFDNS_SOFT_SVCB_ORDER       = 1 << 8  /* SvcParamKeys not strictly increasing (RFC 9460 2.2) */
};
/* anomalies that make the strict entry point refdns_decode() return failure */
#define REFDNS_SOFT_STRICT (REFDNS_SOFT_RDATA_TRAILING)

typedef struct {
  /* header */
  uint16_t id;
  uint8_t  qr, opcode, aa, tc, rd, ra, z, ad, cd;
  uint8_t  rcode_low; /* decoder: the 4 header bits */
  uint16_t rcode;     /* 12 bits: header bits | ext-rcode of the first OPT RR << 4.
                       * encoder writes rcode & 15 into the header */
  uint16_t qdcount, ancount, nscount, arcount; /* decoder: as on the wire.  encoder: ignored
                                                * unless layout->use_counts */
  size_t             nq;
  refdns_question_t *q;
  size_t             nrr; /* all sections, wire order */
  refdns_rr_t       *rr;
  /* decoder facts */
  refdns_status_t status;  /* first hard error, REFDNS_OK if none */
  size_t          err_off; /* offset at which it was detected */
  uint32_t        soft;    /* REFDNS_SOFT_* */
  size_t          msglen;
  size_t          trailing; /* octets after the last RR */
  size_t          n_opt;
  size_t          nptr;
  refdns_ptr_t   *ptr;
  size_t          nptr_total; /* pointers followed (ptr[] keeps at most the first 65536) */
} refdns_msg_t;

/* ---------- decoder ---------- */

/* Strict RFC decode.  Returns 0 iff the message is well-formed: no hard error and no anomaly in
 * REFDNS_SOFT_STRICT.  `out` is always initialised and holds everything decoded up to the first
 * hard error; release with refdns_free().  err receives a one-line reason. */
int refdns_decode(const uint8_t *msg, size_t len, refdns_msg_t *out, char *err, size_t errlen);

/* As above with control.  treat_raw (may be NULL) is asked for every RR after its fixed header:
 * non-zero = do not decode the RDATA of this RR, keep it opaque (rr->typed = 0).
 * Returns 0 iff no hard error (soft anomalies are only recorded). */
typedef int (*refdns_rawpolicy_fn)(void *ud, int section, uint16_t type);
int refdns_decode_ex(const uint8_t *msg, size_t len, refdns_rawpolicy_fn treat_raw, void *ud,
                     refdns_msg_t *out, char *err, size_t errlen);

const char *refdns_status_name(refdns_status_t st); /* "ptr-forward", "rdata-overrun", ... */
int         refdns_type_known(uint16_t type);       /* has an RDATA schema */
const char *refdns_type_name(uint16_t type);        /* "a", "svcb", ...; "raw" if unknown */

/* ---------- encoder ---------- */
typedef enum {
  REFDNS_COMP_NONE = 0, /* no pointers */
  REFDNS_COMP_FIRST,    /* classic: longest known suffix, earliest occurrence */
  REFDNS_COMP_RANDOM    /* seeded choice among every legal (labels kept, earlier occurrence) pair,
                         * occurrences include earlier pointers, so chains of pointers arise */
} refdns_comp_mode_t;

/* explicit override for one name: emit `keep` labels literally, then either a pointer to
 * `target` (any 14-bit value, not checked - forward, self and garbage targets are expressible) or,
 * if target < 0, the root octet (which truncates the name). */
typedef struct {
  uint32_t ordinal; /* n-th name emitted: question names, then per RR owner and RDATA names */
  uint8_t  keep;
  int32_t  target;
} refdns_name_over_t;

/* where the encoder put things (for byte-level mutators) */
typedef enum {
  REFDNS_AT_COUNT = 1,  /* one of the four header counts (2 octets) */
  REFDNS_AT_LABELLEN,   /* a label length octet */
  REFDNS_AT_POINTER,    /* a compression pointer (2 octets) */
  REFDNS_AT_TYPE,       /* TYPE / QTYPE (2 octets) */
  REFDNS_AT_CLASS,      /* CLASS (2) */
  REFDNS_AT_TTL,        /* TTL (4) */
  REFDNS_AT_RDLENGTH,   /* RDLENGTH (2) */
  REFDNS_AT_CSTRLEN,    /* <character-string> length octet */
  REFDNS_AT_TLVLEN,     /* option / SvcParam length (2) */
  REFDNS_AT_RDATA       /* first octet of an RDATA */
} refdns_atkind_t;
typedef struct {
  uint8_t  kind;
  uint32_t off;
} refdns_at_t;
typedef struct {
  size_t       n, cap;
  refdns_at_t *at;
} refdns_encmap_t;

typedef struct {
  refdns_comp_mode_t        mode;
  uint64_t                  seed;       /* REFDNS_COMP_RANDOM */
  int                       rdata_comp; /* 0: never compress inside RDATA; 1: only NS CNAME SOA
                                         * PTR MX (RFC 3597 §4); 2: every RDATA name */
  int                       use_counts; /* emit m->qdcount.. instead of the real counts */
  size_t                    nover;
  const refdns_name_over_t *over;
  refdns_encmap_t          *map; /* optional; caller frees map->at */
} refdns_layout_t;

/* Encode m.  layout may be NULL (= no compression).  *len is the capacity of out on entry and the
 * message length on return.  Returns 0, or a negative REFDNS_E* code. */
enum { REFDNS_ESPACE = -1, REFDNS_ERDLEN = -2, REFDNS_ENAME = -3, REFDNS_EARG = -4 };
int refdns_encode(const refdns_msg_t *m, const refdns_layout_t *layout, uint8_t *out, size_t *len);

/* ---------- canonical dump ---------- */
/* One line per field, '\n' terminated, "<path> <value>":
 *   hdr.id hdr.qr hdr.opcode hdr.aa hdr.tc hdr.rd hdr.ra [hdr.z] hdr.ad hdr.cd hdr.rcode
 *   hdr.qdcount hdr.ancount hdr.nscount hdr.arcount
 *   q<i>.name q<i>.type q<i>.class
 *   <sec><i>.<t>.name .type .class .ttl [.rdlength .rdata_off] then one line per RDATA field,
 *   sec = an|ns|ar, i = index within the section, t = refdns_type_name() ("raw" for opaque RRs).
 *   OPT RRs print .udp_size [.ext_rcode] .version .flags instead of .class/.ttl.
 * Numbers are decimal.  Names are the hex of each label joined by '.', the root is ".".  Byte
 * strings are hex, the empty string is "-".  String lists print <f>.count and <f>[k]; TLV lists
 * print <f>.count, <f>[k].code, <f>[k].value. */
enum {
  REFDNS_DUMP_WIRE      = 1 << 0, /* include hdr.z, rdlength, rdata_off, trailing, pointers */
  REFDNS_DUMP_EXT_RCODE = 1 << 1, /* include the per-OPT ext_rcode line */
  REFDNS_DUMP_TLV_MAP   = 1 << 2, /* present TLV lists as ordered maps: a repeated code keeps its
                                   * first position and takes the last value */
  REFDNS_DUMP_SPLIT255  = 1 << 3  /* n/a for decoded data; kept for symmetry with other dumpers */
};
void refdns_dump_ex(const refdns_msg_t *m, unsigned flags, vh_sb_t *out);
void refdns_dump(const refdns_msg_t *m, vh_sb_t *out); /* = WIRE | EXT_RCODE */
/* the name / byte-string renderings used by the dump (no newline) */
void refdns_dump_name(const refdns_name_t *n, vh_sb_t *out);
void refdns_dump_hex(const uint8_t *p, size_t n, vh_sb_t *out);

/* ---------- construction helpers ---------- */
void refdns_msg_init(refdns_msg_t *m);
void refdns_free(refdns_msg_t *m); /* releases what m owns and re-initialises it */

/* names */
void refdns_name_root(refdns_name_t *n);
int  refdns_name_push_front(refdns_name_t *n, const uint8_t *label, size_t len); /* prepend */
int  refdns_name_push_back(refdns_name_t *n, const uint8_t *label, size_t len);  /* append */
int  refdns_name_eq(const refdns_name_t *a, const refdns_name_t *b);        /* octet-exact */
int  refdns_name_eq_nocase(const refdns_name_t *a, const refdns_name_t *b); /* ASCII case fold */
size_t refdns_name_wirelen(const refdns_name_t *n);                         /* 1..255 */
const uint8_t *refdns_name_label(const refdns_name_t *n, size_t i, size_t *len);
/* RFC 1035 §5.1 presentation format: '.' separates labels, \DDD is a decimal octet, \X is X.
 * A trailing unescaped '.' is allowed; "" and "." are the root.  Returns 0 or -1. */
int refdns_name_from_text(refdns_name_t *n, const char *text);
/* writes presentation text (escapes '.', '\\', '"', ';', '(', ')', '@', '$' with a backslash and
 * anything outside 0x21..0x7e as \DDD); root is ".".  Returns length or -1 if buf is too small
 * (1024 octets always suffice). */
int refdns_name_to_text(const refdns_name_t *n, char *buf, size_t buflen);

/* questions / RRs.  The returned pointers are valid until the next refdns_add_* on the same m. */
refdns_question_t *refdns_add_question(refdns_msg_t *m, const refdns_name_t *name, uint16_t type,
                                       uint16_t klass);
/* typed RR with zero / empty / root fields when the type has a schema, else an empty raw RR */
refdns_rr_t *refdns_add_rr(refdns_msg_t *m, int section, const refdns_name_t *owner,
                           uint16_t type, uint16_t klass, uint32_t ttl);
refdns_rr_t *refdns_add_rr_raw(refdns_msg_t *m, int section, const refdns_name_t *owner,
                               uint16_t type, uint16_t klass, uint32_t ttl, const uint8_t *rdata,
                               size_t rdlen);
refdns_field_t *refdns_rr_field(refdns_rr_t *rr, const char *name); /* NULL if no such field */
const refdns_field_t *refdns_rr_field_c(const refdns_rr_t *rr, const char *name);
int refdns_rr_set_u(refdns_rr_t *rr, const char *field, uint32_t v);
int refdns_rr_set_addr(refdns_rr_t *rr, const char *field, const uint8_t *addr, size_t n);
int refdns_rr_set_name(refdns_rr_t *rr, const char *field, const refdns_name_t *name);
int refdns_rr_set_bytes(refdns_rr_t *rr, const char *field, const void *p, size_t n);
int refdns_rr_add_chunk(refdns_rr_t *rr, const char *field, const void *p, size_t n);
int refdns_rr_add_tlv(refdns_rr_t *rr, const char *field, uint16_t code, const void *p, size_t n);
int refdns_rr_copy(refdns_rr_t *dst, const refdns_rr_t *src); /* deep copy into *dst */
void refdns_rr_free(refdns_rr_t *rr);

/* common records */
refdns_rr_t *refdns_add_a(refdns_msg_t *m, int section, const refdns_name_t *owner, uint32_t ttl,
                          const uint8_t ip[4]);
refdns_rr_t *refdns_add_aaaa(refdns_msg_t *m, int section, const refdns_name_t *owner,
                             uint32_t ttl, const uint8_t ip[16]);
/* NS / CNAME / PTR */
refdns_rr_t *refdns_add_nametype(refdns_msg_t *m, int section, const refdns_name_t *owner,
                                 uint16_t type, uint32_t ttl, const refdns_name_t *target);
refdns_rr_t *refdns_add_soa(refdns_msg_t *m, int section, const refdns_name_t *owner, uint32_t ttl,
                            const refdns_name_t *mname, const refdns_name_t *rname,
                            uint32_t serial, uint32_t refresh, uint32_t retry, uint32_t expire,
                            uint32_t minimum);
/* OPT pseudo-RR in the additional section: root owner, class = udp_size,
 * ttl = ext_rcode<<24 | version<<16 | flags (bit 15 of flags = DO).  Add options with
 * refdns_rr_add_tlv(rr, "options", code, p, n). */
refdns_rr_t *refdns_add_opt(refdns_msg_t *m, uint16_t udp_size, uint8_t ext_rcode, uint8_t version,
                            uint16_t flags);

/* a query: one question, RD as given, optional OPT (edns_udp_size > 0) */
int refdns_build_query(refdns_msg_t *m, uint16_t id, const refdns_name_t *qname, uint16_t qtype,
                       uint16_t qclass, int rd, unsigned edns_udp_size);
/* a response to `query`: same id / opcode / RD / question(s), QR=1, flags as given, 12-bit rcode
 * (if query carried an OPT RR, or rcode > 15, an OPT RR with the high rcode bits is added),
 * followed by deep copies of answers[0..n) (each goes to its own ->section). */
int refdns_build_response(refdns_msg_t *resp, const refdns_msg_t *query, unsigned rcode, int aa,
                          int tc, int ra, const refdns_rr_t *answers, size_t nanswers);

#endif
