/* ds_buf.h - TODO */
static void ds_buf_case(vh_rng_t *rng) { (void)rng; vh_inconclusive("not-implemented"); }
