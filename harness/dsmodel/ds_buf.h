/* ds_buf.h - ares_buf_t vs. a byte vector with a read cursor and an optional tag.
 *
 * Model (all indices absolute = counted from the first byte ever appended):
 *   A[0..alen)  every byte appended (set_length/replace edit the unread tail)
 *   c           read cursor, t tag (-1 = none), base = how many leading bytes the buffer has
 *               physically discarded (ares_buf_reclaim, explicit or implied by growth)
 * The buffer's physical position is c-base; base is not predictable from the interface (growth
 * reclaims "if there is insufficient space"), so it is *observed* through get_position after every
 * operation and must be monotone and never pass the cursor or an active tag.
 *
 * Oracle after every operation: len == alen-c; peek shows exactly A[c..alen); with a tag,
 * tag_length == c-t and tag_fetch shows exactly A[t..c); without, tag_fetch is NULL.  Every fetch /
 * consume beyond the end fails and leaves all of that unchanged; tag_rollback puts the cursor back on
 * the tag; writes to const buffers fail; finish_bin/finish_str hand back A[c..alen).
 */

#define DSB_MAX (1 << 17)
static unsigned char dsb_A[DSB_MAX + 4096];
static size_t        dsb_alen, dsb_c, dsb_base;
static long          dsb_t;
static int           dsb_const;
static int           dsb_allocated; /* a dynamic buffer has storage once something was appended */
static int           dsb_text;      /* 0 binary, 1 text, 2 mostly text */
static unsigned char dsb_D[DSB_MAX + 4096]; /* model of the side buffer used by fetch_bytes_into_buf */
static size_t        dsb_dlen;
static const char   *dsb_site = "init";
static int           dsb_blank_nodup; /* this case may combine ALLOW_BLANK with NO_DUPLICATES in split */
static unsigned char dsb_scratch[DSB_MAX + 8192]; /* destination for fetches, large enough for any request */

static void dsb_viol(const char *rule, const char *fmt, ...)
{
  char    key[96];
  char    buf[1024];
  va_list ap;
  va_start(ap, fmt);
  vsnprintf(buf, sizeof(buf), fmt, ap);
  va_end(ap);
  snprintf(key, sizeof(key), "ds:buf:%s:%s", rule, dsb_site);
  vh_violation(key, "%s", buf);
}

static unsigned char dsb_byte(vh_rng_t *rng)
{
  static const char alpha[] = "abcdeXYZ0123456789  ,,;;::\t\n\n\r=/.-_";
  if (dsb_text == 0 || (dsb_text == 2 && vh_chance(rng, 1, 10))) {
    return (unsigned char)vh_below(rng, 256);
  }
  return (unsigned char)alpha[vh_below(rng, sizeof(alpha) - 1)];
}

static int dsb_is_ws(unsigned char ch, int lf)
{
  return ch == '\r' || ch == '\t' || ch == ' ' || ch == '\v' || ch == '\f' || (lf && ch == '\n');
}

static int dsb_isprint(const unsigned char *p, size_t n)
{
  size_t i;
  for (i = 0; i < n; i++) {
    if (p[i] < 0x20 || p[i] > 0x7e) {
      return 0;
    }
  }
  return 1;
}

static size_t dsb_first_diff(const unsigned char *a, const unsigned char *b, size_t n)
{
  size_t i;
  for (i = 0; i < n; i++) {
    if (a[i] != b[i]) {
      return i;
    }
  }
  return n;
}

/* the after-every-operation comparison */
static int dsb_sync(ares_buf_t *buf, const char *what)
{
  size_t               plen = 777, pos, tl = 555;
  const unsigned char *p;
  size_t               rem = dsb_alen - dsb_c;

  if (ares_buf_len(buf) != rem) {
    dsb_viol("len", "%s: len=%zu model=%zu (alen %zu cursor %zu)", what, ares_buf_len(buf), rem, dsb_alen, dsb_c);
    return 0;
  }
  p = ares_buf_peek(buf, &plen);
  if (plen != rem || (rem && p == NULL)) {
    dsb_viol("peek", "%s: peek gives %p/%zu, model has %zu unread bytes", what, (const void *)p, plen, rem);
    return 0;
  }
  if (rem && memcmp(p, dsb_A + dsb_c, rem) != 0) {
    size_t d = dsb_first_diff(p, dsb_A + dsb_c, rem);
    dsb_viol("content", "%s: unread byte %zu of %zu is 0x%02x, model 0x%02x", what, d, rem, p[d], dsb_A[dsb_c + d]);
    return 0;
  }
  pos = ares_buf_get_position(buf);
  if (dsb_const) {
    if (pos != dsb_c) {
      dsb_viol("position", "%s: const buffer position %zu, model cursor %zu", what, pos, dsb_c);
      return 0;
    }
  } else {
    size_t nb, maxb = (dsb_t >= 0 && (size_t)dsb_t < dsb_c) ? (size_t)dsb_t : dsb_c;
    if (pos > dsb_c || (nb = dsb_c - pos) < dsb_base) {
      dsb_viol("position", "%s: position %zu with %zu bytes consumed overall and %zu known discarded", what, pos, dsb_c,
               dsb_base);
      return 0;
    }
    if (nb > maxb) {
      dsb_viol("reclaim-past-tag", "%s: buffer discarded %zu leading bytes but the tag is at %ld (cursor %zu)", what, nb, dsb_t,
               dsb_c);
      return 0;
    }
    if (nb != dsb_base) {
      vh_count("buf_reclaims_observed");
      if (dsb_t >= 0) {
        vh_count("buf_reclaims_with_tag");
      }
    }
    dsb_base = nb;
  }
  if (dsb_t >= 0) {
    if (ares_buf_tag_length(buf) != dsb_c - (size_t)dsb_t) {
      dsb_viol("tag-length", "%s: tag_length=%zu model=%zu", what, ares_buf_tag_length(buf), dsb_c - (size_t)dsb_t);
      return 0;
    }
    p = ares_buf_tag_fetch(buf, &tl);
    /* a buffer that never held data has no storage to point into: NULL with length 0 is all it can say */
    if ((p == NULL && dsb_c != (size_t)dsb_t) || tl != dsb_c - (size_t)dsb_t) {
      dsb_viol("tag-fetch", "%s: tag_fetch gives %p/%zu, model tag..cursor is %zu bytes", what, (const void *)p, tl,
               dsb_c - (size_t)dsb_t);
      return 0;
    }
    if (tl && memcmp(p, dsb_A + dsb_t, tl) != 0) {
      size_t d = dsb_first_diff(p, dsb_A + dsb_t, tl);
      dsb_viol("tag-content", "%s: tagged byte %zu of %zu is 0x%02x, model 0x%02x", what, d, tl, p[d], dsb_A[dsb_t + d]);
      return 0;
    }
  } else {
    if (ares_buf_tag_fetch(buf, &tl) != NULL || ares_buf_tag_length(buf) != 0) {
      dsb_viol("tag-phantom", "%s: no tag in the model but tag_fetch/tag_length report one", what);
      return 0;
    }
  }
  return 1;
}

/* model append (dynamic buffers only) */
static void dsb_model_append(const unsigned char *p, size_t n)
{
  memcpy(dsb_A + dsb_alen, p, n);
  dsb_alen += n;
  if (n) {
    dsb_allocated = 1;
  }
}

/* a write must succeed on a dynamic buffer and fail on a const one */
static int dsb_write_status(ares_status_t st, const char *what)
{
  if (st == ARES_ENOMEM) {
    return -1;
  }
  if (dsb_const) {
    if (st == ARES_SUCCESS) {
      dsb_viol("const-write", "%s: write to a const buffer succeeded", what);
    }
    return 0;
  }
  if (st != ARES_SUCCESS) {
    dsb_viol("write-rejected", "%s: write to a dynamic buffer returned %d", what, (int)st);
    return 0;
  }
  return 1;
}

/* ---- reference splitter ---- */
typedef struct {
  size_t off, len; /* into the input */
} dsb_sec_t;
#define DSB_MAXSEC 4200

static int dsb_memeq_ci(const unsigned char *a, const unsigned char *b, size_t n)
{
  size_t i;
  for (i = 0; i < n; i++) {
    unsigned char x = a[i], y = b[i];
    if (x >= 'A' && x <= 'Z') {
      x = (unsigned char)(x + 32);
    }
    if (y >= 'A' && y <= 'Z') {
      y = (unsigned char)(y + 32);
    }
    if (x != y) {
      return 0;
    }
  }
  return 1;
}

static size_t dsb_ref_split(const unsigned char *in, size_t n, const unsigned char *delims, size_t ndel, unsigned flags,
                            size_t max_sections, dsb_sec_t *out)
{
  size_t pos = 0, cnt = 0;
  int    first = 1;
  while (pos < n) {
    size_t start, end, k;
    if (first) {
      start = pos;
    } else if (flags & ARES_BUF_SPLIT_KEEP_DELIMS) {
      start = pos; /* section starts with its delimiter */
      pos++;
    } else {
      pos++;
      start = pos;
    }
    first = 0;
    if (max_sections && cnt >= max_sections - 1) {
      pos = n; /* last permitted section takes the rest */
    } else {
      while (pos < n && memchr(delims, in[pos], ndel) == NULL) {
        pos++;
      }
    }
    end = pos;
    if (flags & ARES_BUF_SPLIT_LTRIM) {
      while (start < end && dsb_is_ws(in[start], 1)) {
        start++;
      }
    }
    if (flags & ARES_BUF_SPLIT_RTRIM) {
      while (end > start && dsb_is_ws(in[end - 1], 1)) {
        end--;
      }
    }
    if (end == start && !(flags & ARES_BUF_SPLIT_ALLOW_BLANK)) {
      continue;
    }
    if (flags & ARES_BUF_SPLIT_NO_DUPLICATES) {
      int dup = 0;
      for (k = 0; k < cnt && !dup; k++) {
        if (out[k].len == end - start) {
          dup = (flags & ARES_BUF_SPLIT_CASE_INSENSITIVE) ? dsb_memeq_ci(in + out[k].off, in + start, end - start)
                                                          : memcmp(in + out[k].off, in + start, end - start) == 0;
        }
      }
      if (dup) {
        continue;
      }
    }
    if (cnt < DSB_MAXSEC) {
      out[cnt].off = start;
      out[cnt].len = end - start;
    }
    cnt++;
  }
  return cnt;
}

static dsb_sec_t dsb_secs[DSB_MAXSEC];

/* split `target` (whose unread bytes are in[0..n)) and compare against the reference */
static void dsb_do_split(ares_buf_t *target, const unsigned char *in, size_t n, vh_rng_t *rng, const char *what)
{
  static const char *const delimsets[] = { ",", ";", " ", ", ", ",;:", " \t", "\n", ":=" };
  const char              *ds          = delimsets[vh_below(rng, 8)];
  size_t                   ndel        = strlen(ds);
  unsigned                 flags       = 0;
  size_t                   maxsec      = vh_chance(rng, 1, 2) ? 0 : vh_below(rng, 5);
  int                      as_str      = vh_chance(rng, 1, 3);
  size_t                   want, k;
  ares_array_t            *arr = NULL;
  ares_status_t            st;

  if (vh_chance(rng, 1, 3)) {
    flags |= ARES_BUF_SPLIT_ALLOW_BLANK;
  }
  if (vh_chance(rng, 1, 3) && (!(flags & ARES_BUF_SPLIT_ALLOW_BLANK) || dsb_blank_nodup)) {
    flags |= ARES_BUF_SPLIT_NO_DUPLICATES;
    if (vh_chance(rng, 1, 2)) {
      flags |= ARES_BUF_SPLIT_CASE_INSENSITIVE;
    }
  }
  if (vh_chance(rng, 1, 3)) {
    flags |= ARES_BUF_SPLIT_RTRIM;
  }
  if (vh_chance(rng, 1, 5)) {
    /* documented as incompatible with LTRIM; the delimiter-only section question (see report) is
     * avoided by pairing it with ALLOW_BLANK */
    flags |= ARES_BUF_SPLIT_KEEP_DELIMS | ARES_BUF_SPLIT_ALLOW_BLANK;
    if (!dsb_blank_nodup) {
      flags &= ~(unsigned)(ARES_BUF_SPLIT_NO_DUPLICATES | ARES_BUF_SPLIT_CASE_INSENSITIVE);
    }
  } else if (vh_chance(rng, 1, 3)) {
    flags |= ARES_BUF_SPLIT_LTRIM;
  }
  want = dsb_ref_split(in, n, (const unsigned char *)ds, ndel, flags, maxsec, dsb_secs);
  if (want > DSB_MAXSEC) {
    return; /* not comparable; leave the target untouched */
  }
  vh_count(as_str ? "buf_split_str_array" : "buf_split");

  if (!as_str) {
    st = ares_buf_split(target, (const unsigned char *)ds, ndel, (ares_buf_split_t)flags, maxsec, &arr);
    if (st == ARES_ENOMEM) {
      return;
    }
    if (st != ARES_SUCCESS || arr == NULL) {
      dsb_viol("split-rejected", "%s: split(delims '%s', flags 0x%x, max %zu) returned %d", what, ds, flags, maxsec, (int)st);
      return;
    }
    if (ares_array_len(arr) != want) {
      dsb_viol("split-count", "%s: split(delims '%s', flags 0x%x, max %zu) of %zu bytes gives %zu sections, reference %zu",
               what, ds, flags, maxsec, n, ares_array_len(arr), want);
    }
    for (k = 0; k < want && !vh_case_viol; k++) {
      ares_buf_t         **bp = (ares_buf_t **)ares_array_at(arr, k);
      size_t               sl = 0;
      const unsigned char *sp = bp ? ares_buf_peek(*bp, &sl) : NULL;
      if (bp == NULL || sl != dsb_secs[k].len || (sl && memcmp(sp, in + dsb_secs[k].off, sl) != 0)) {
        dsb_viol("split-section", "%s: split(delims '%s', flags 0x%x, max %zu): section %zu has %zu bytes, reference %zu", what,
                 ds, flags, maxsec, k, sl, dsb_secs[k].len);
      }
    }
    ares_array_destroy(arr);
  } else {
    int printable = 1, blank = 0;
    for (k = 0; k < want; k++) {
      if (!dsb_isprint(in + dsb_secs[k].off, dsb_secs[k].len)) {
        printable = 0;
      }
      if (dsb_secs[k].len == 0) {
        blank = 1;
      }
    }
    st = ares_buf_split_str_array(target, (const unsigned char *)ds, ndel, (ares_buf_split_t)flags, maxsec, &arr);
    if (st == ARES_ENOMEM) {
      return;
    }
    if (!printable) {
      /* sections are validated to be printable strings */
      if (st == ARES_SUCCESS) {
        dsb_viol("split-str-unprintable", "%s: split_str_array accepted a section that is not printable ASCII", what);
        ares_array_destroy(arr);
      }
      return;
    }
    if (st != ARES_SUCCESS || arr == NULL) {
      if (blank) {
        dsb_viol("split-str-blank-rejected",
                 "%s: split_str_array(delims '%s', flags 0x%x incl. ALLOW_BLANK, max %zu) returned %d on input with an empty "
                 "section",
                 what, ds, flags, maxsec, (int)st);
      } else {
        dsb_viol("split-rejected", "%s: split_str_array(delims '%s', flags 0x%x, max %zu) returned %d", what, ds, flags, maxsec,
                 (int)st);
      }
      return;
    }
    if (ares_array_len(arr) != want) {
      dsb_viol("split-count", "%s: split_str_array(delims '%s', flags 0x%x, max %zu) gives %zu strings, reference %zu", what, ds,
               flags, maxsec, ares_array_len(arr), want);
    }
    for (k = 0; k < want && !vh_case_viol; k++) {
      char **sp = (char **)ares_array_at(arr, k);
      if (sp == NULL || *sp == NULL || strlen(*sp) != dsb_secs[k].len ||
          memcmp(*sp, in + dsb_secs[k].off, dsb_secs[k].len) != 0) {
        dsb_viol("split-section", "%s: split_str_array(delims '%s', flags 0x%x, max %zu): string %zu differs from reference",
                 what, ds, flags, maxsec, k);
      }
    }
    ares_array_destroy(arr);
  }
}

enum {
  DSB_APPEND = 1,
  DSB_APPEND_BYTE,
  DSB_APPEND_BE16,
  DSB_APPEND_BE32,
  DSB_APPEND_STR,
  DSB_APPEND_NUM_DEC,
  DSB_APPEND_NUM_HEX,
  DSB_APPEND_START,
  DSB_APPEND_BIG,
  DSB_HEXDUMP,
  DSB_FETCH_BYTES,
  DSB_FETCH_BE16,
  DSB_FETCH_BE32,
  DSB_FETCH_DUP,
  DSB_FETCH_INTO_BUF,
  DSB_FETCH_STR_DUP,
  DSB_CONSUME,
  DSB_PEEK_BYTE,
  DSB_TAG,
  DSB_TAG_ROLLBACK,
  DSB_TAG_CLEAR,
  DSB_TAG_FETCH_BYTES,
  DSB_TAG_FETCH_STRING,
  DSB_TAG_FETCH_STRDUP,
  DSB_TAG_FETCH_CONSTBUF,
  DSB_SET_LENGTH,
  DSB_SET_POSITION,
  DSB_EXCURSION,
  DSB_RECLAIM,
  DSB_CONSUME_WS,
  DSB_CONSUME_NONWS,
  DSB_CONSUME_CHARSET,
  DSB_CONSUME_UNTIL_CHARSET,
  DSB_CONSUME_UNTIL_SEQ,
  DSB_CONSUME_LINE,
  DSB_BEGINS_WITH,
  DSB_SPLIT_COPY,
  DSB_SPLIT_SELF,
  DSB_REPLACE,
  DSB_FINISH,
  DSB_NKINDS
};

static const char *const dsb_opname[] = { "?",
                                          "append",
                                          "append_byte",
                                          "append_be16",
                                          "append_be32",
                                          "append_str",
                                          "append_num_dec",
                                          "append_num_hex",
                                          "append_start",
                                          "append_big",
                                          "hexdump",
                                          "fetch_bytes",
                                          "fetch_be16",
                                          "fetch_be32",
                                          "fetch_bytes_dup",
                                          "fetch_bytes_into_buf",
                                          "fetch_str_dup",
                                          "consume",
                                          "peek_byte",
                                          "tag",
                                          "tag_rollback",
                                          "tag_clear",
                                          "tag_fetch_bytes",
                                          "tag_fetch_string",
                                          "tag_fetch_strdup",
                                          "tag_fetch_constbuf",
                                          "set_length",
                                          "set_position",
                                          "position_excursion",
                                          "reclaim",
                                          "consume_whitespace",
                                          "consume_nonwhitespace",
                                          "consume_charset",
                                          "consume_until_charset",
                                          "consume_until_seq",
                                          "consume_line",
                                          "begins_with",
                                          "split_copy",
                                          "split_self",
                                          "replace",
                                          "finish" };

/* read-side failure: status must not be success, nothing moves (checked by the sync that follows) */
static void dsb_expect_fail(ares_status_t st, const char *what, const char *why)
{
  if (st == ARES_SUCCESS) {
    dsb_viol("overrun-accepted", "%s: succeeded although %s", what, why);
  }
}

static void ds_buf_case(vh_rng_t *rng)
{
  ares_buf_t    *buf  = NULL;
  ares_buf_t    *dest = NULL;
  unsigned char *constmem = NULL;
  int            nops = vh_chance(rng, 1, 8) ? vh_range(rng, 150, 700) : vh_range(rng, 6, 110);
  int            bias = vh_range(rng, 0, 3); /* 0 balanced, 1 producer-heavy, 2 stream (append, tag, consume), 3 parser */
  int            i;
  char           what[128];
  unsigned char  tmp[4200];
  vh_sb_t        sb = { 0 };

  dsb_alen = dsb_c = dsb_base = 0;
  dsb_t                       = -1;
  dsb_allocated               = 0;
  dsb_dlen                    = 0;
  dsb_site                    = "init";
  dsb_const                   = vh_chance(rng, 1, 5);
  dsb_text                    = vh_chance(rng, 1, 4) ? 0 : vh_chance(rng, 1, 4) ? 2 : 1;
  dsb_blank_nodup             = vh_chance(rng, 1, 12);

  if (dsb_const) {
    size_t n = vh_chance(rng, 1, 6) ? (size_t)vh_range(rng, 300, 3000) : (size_t)vh_range(rng, 1, 120);
    size_t k;
    /* exact-size heap block: any read past the end is an ASan report */
    constmem = (unsigned char *)malloc(n);
    if (constmem == NULL) {
      vh_inconclusive("oom");
      return;
    }
    for (k = 0; k < n; k++) {
      constmem[k] = dsb_byte(rng);
    }
    memcpy(dsb_A, constmem, n);
    dsb_alen = n;
    buf      = ares_buf_create_const(constmem, n);
    if (ares_buf_create_const(constmem, 0) != NULL || ares_buf_create_const(NULL, 4) != NULL) {
      vh_violation("ds:buf:create-const-misuse", "create_const accepted NULL data or zero length");
    }
  } else {
    buf = ares_buf_create();
  }
  dest = ares_buf_create();
  if (buf == NULL || dest == NULL) {
    vh_inconclusive("oom");
    goto cleanup;
  }
  if (vh_want_sample()) {
    vh_sb_printf(&sb, "{\"container\":\"buf\",\"const\":%d,\"text\":%d,\"bias\":%d,\"ops\":[", dsb_const, dsb_text, bias);
  }
  if (!dsb_sync(buf, "create")) {
    goto cleanup;
  }

  for (i = 0; i < nops && !vh_case_viol; i++) {
    int           op;
    int           r   = vh_range(rng, 0, 99);
    size_t        rem = dsb_alen - dsb_c;
    ares_status_t st;
    int           w;
    size_t        n, k;
    int           wr_w = dsb_const ? 6 : bias == 1 ? 55 : bias == 3 ? 25 : 38;

    if (r < wr_w) {
      static const int wr[] = { DSB_APPEND,         DSB_APPEND,         DSB_APPEND,    DSB_APPEND_BYTE, DSB_APPEND_BE16,
                                DSB_APPEND_BE32,    DSB_APPEND_STR,     DSB_APPEND_STR, DSB_APPEND_NUM_DEC,
                                DSB_APPEND_NUM_HEX, DSB_APPEND_START,   DSB_APPEND_BIG, DSB_HEXDUMP };
      op                    = wr[vh_below(rng, sizeof(wr) / sizeof(wr[0]))];
    } else if (r < wr_w + 30) {
      static const int rd[] = { DSB_FETCH_BYTES, DSB_FETCH_BYTES,   DSB_FETCH_BE16, DSB_FETCH_BE32, DSB_FETCH_DUP, DSB_FETCH_INTO_BUF,
                                DSB_FETCH_STR_DUP, DSB_CONSUME,     DSB_CONSUME,    DSB_PEEK_BYTE };
      op                    = rd[vh_below(rng, sizeof(rd) / sizeof(rd[0]))];
      if (bias == 2 && vh_chance(rng, 1, 2)) {
        op = DSB_CONSUME;
      }
    } else if (r < wr_w + 48) {
      static const int tg[] = { DSB_TAG,
                                DSB_TAG,
                                DSB_TAG_ROLLBACK,
                                DSB_TAG_ROLLBACK,
                                DSB_TAG_CLEAR,
                                DSB_TAG_FETCH_BYTES,
                                DSB_TAG_FETCH_STRING,
                                DSB_TAG_FETCH_STRDUP,
                                DSB_TAG_FETCH_CONSTBUF };
      op                    = tg[vh_below(rng, sizeof(tg) / sizeof(tg[0]))];
    } else if (r < wr_w + 56) {
      static const int ps[] = { DSB_SET_LENGTH, DSB_SET_POSITION, DSB_EXCURSION, DSB_RECLAIM, DSB_RECLAIM };
      op                    = ps[vh_below(rng, sizeof(ps) / sizeof(ps[0]))];
    } else {
      static const int pr[] = { DSB_CONSUME_WS,       DSB_CONSUME_NONWS, DSB_CONSUME_CHARSET, DSB_CONSUME_UNTIL_CHARSET,
                                DSB_CONSUME_UNTIL_SEQ, DSB_CONSUME_LINE, DSB_BEGINS_WITH,     DSB_SPLIT_COPY,
                                DSB_SPLIT_COPY,       DSB_SPLIT_SELF,    DSB_REPLACE };
      op                    = pr[vh_below(rng, sizeof(pr) / sizeof(pr[0]))];
      if (op == DSB_SPLIT_SELF && !vh_chance(rng, 1, 3)) {
        op = DSB_SPLIT_COPY;
      }
    }
    if (dsb_alen > DSB_MAX - 40000) {
      break;
    }
    OP(op);
    dsb_site = dsb_opname[op];
    if (sb.b && i < 40) {
      vh_sb_printf(&sb, "%s%d", i ? "," : "", op);
    }
    snprintf(what, sizeof(what), "op#%d %s (alen %zu cursor %zu tag %ld base %zu%s)", i, dsb_opname[op], dsb_alen, dsb_c, dsb_t,
             dsb_base, dsb_const ? " const" : "");
    vh_count(op <= DSB_HEXDUMP ? "buf_writes" : "buf_reads_and_moves");

    switch (op) {
      case DSB_APPEND:
      case DSB_APPEND_BIG:
        n = op == DSB_APPEND_BIG ? (size_t)vh_range(rng, 200, 4100) : (size_t)vh_range(rng, 0, 48);
        for (k = 0; k < n; k++) {
          tmp[k] = dsb_byte(rng);
        }
        st = ares_buf_append(buf, n ? tmp : (vh_chance(rng, 1, 2) ? tmp : NULL), n);
        if (n == 0) {
          /* appending nothing is documented to succeed trivially; a const buffer is not changed by it */
          break;
        }
        w = dsb_write_status(st, what);
        if (w < 0) {
          vh_inconclusive("oom");
          goto cleanup;
        }
        if (w > 0) {
          dsb_model_append(tmp, n);
        }
        break;
      case DSB_APPEND_BYTE:
        tmp[0] = dsb_byte(rng);
        w      = dsb_write_status(ares_buf_append_byte(buf, tmp[0]), what);
        if (w > 0) {
          dsb_model_append(tmp, 1);
        }
        break;
      case DSB_APPEND_BE16:
        {
          unsigned short v = (unsigned short)vh_below(rng, 65536);
          tmp[0]           = (unsigned char)(v >> 8);
          tmp[1]           = (unsigned char)(v & 0xff);
          w                = dsb_write_status(ares_buf_append_be16(buf, v), what);
          if (w > 0) {
            dsb_model_append(tmp, 2);
          }
          break;
        }
      case DSB_APPEND_BE32:
        {
          unsigned int v = (unsigned int)vh_rand64(rng);
          tmp[0]         = (unsigned char)(v >> 24);
          tmp[1]         = (unsigned char)(v >> 16);
          tmp[2]         = (unsigned char)(v >> 8);
          tmp[3]         = (unsigned char)v;
          w              = dsb_write_status(ares_buf_append_be32(buf, v), what);
          if (w > 0) {
            dsb_model_append(tmp, 4);
          }
          break;
        }
      case DSB_APPEND_STR:
        n = (size_t)vh_range(rng, 1, 40);
        for (k = 0; k < n; k++) {
          unsigned char ch = dsb_byte(rng);
          tmp[k]           = ch ? ch : 'n';
        }
        tmp[n] = 0;
        w      = dsb_write_status(ares_buf_append_str(buf, (const char *)tmp), what);
        if (w > 0) {
          dsb_model_append(tmp, n);
        }
        break;
      case DSB_APPEND_NUM_DEC:
      case DSB_APPEND_NUM_HEX:
        {
          size_t num = vh_chance(rng, 1, 3) ? vh_below(rng, 20) : (size_t)(vh_rand64(rng) >> vh_below(rng, 64));
          size_t len = vh_chance(rng, 1, 2) ? 0 : (size_t)vh_range(rng, 1, 12);
          char   full[40];
          char   out[40];
          size_t fl;
          /* reference: len==0 -> plain number; else the low `len` digits, zero padded */
          if (op == DSB_APPEND_NUM_DEC) {
            snprintf(full, sizeof(full), "%030zu", num);
          } else {
            snprintf(full, sizeof(full), "%030zX", num);
          }
          fl = strlen(full);
          if (len == 0) {
            const char *q = full;
            while (*q == '0' && q[1]) {
              q++;
            }
            snprintf(out, sizeof(out), "%s", q);
          } else {
            snprintf(out, sizeof(out), "%s", full + fl - len);
          }
          st = op == DSB_APPEND_NUM_DEC ? ares_buf_append_num_dec(buf, num, len) : ares_buf_append_num_hex(buf, num, len);
          snprintf(what + strlen(what), sizeof(what) - strlen(what), " num=%zu len=%zu", num, len);
          if (op == DSB_APPEND_NUM_DEC && !dsb_const && st != ARES_SUCCESS && st != ARES_ENOMEM &&
              num >= (size_t)10000000000000000000ULL) {
            dsb_viol("num-dec-20-digits", "%s: append_num_dec of a 20-digit number returned %d", what, (int)st);
            break;
          }
          w = dsb_write_status(st, what);
          if (w > 0) {
            dsb_model_append((const unsigned char *)out, strlen(out));
          }
          break;
        }
      case DSB_APPEND_START:
        {
          size_t         want = vh_chance(rng, 1, 8) ? 0 : (size_t)vh_range(rng, 1, vh_chance(rng, 1, 6) ? 3000 : 64);
          size_t         got  = want;
          unsigned char *p    = ares_buf_append_start(buf, &got);
          if (want == 0 || dsb_const) {
            if (p != NULL) {
              dsb_viol(dsb_const ? "const-write" : "append-start-zero", "%s: append_start(%zu) returned a buffer", what, want);
            }
            break;
          }
          if (p == NULL) {
            vh_inconclusive("oom");
            goto cleanup;
          }
          if (got < want) {
            dsb_viol("append-start-short", "%s: append_start(%zu) offers only %zu bytes", what, want, got);
            break;
          }
          dsb_allocated = 1;
          /* the whole offered region must be writable (ASan checks); then commit a prefix */
          memset(p, 0xA5, got);
          n = vh_chance(rng, 1, 5) ? 0 : vh_chance(rng, 1, 4) ? want : (size_t)vh_below(rng, (uint32_t)want + 1);
          for (k = 0; k < n; k++) {
            p[k]   = dsb_byte(rng);
            tmp[k] = p[k];
          }
          ares_buf_append_finish(buf, n);
          dsb_model_append(tmp, n);
          break;
        }
      case DSB_HEXDUMP:
        {
          /* dump the same data into a scratch buffer and into the buffer under test: the text appended
           * must be identical, and have one line per 16 bytes */
          ares_buf_t *scratch = ares_buf_create();
          size_t      sl      = 0, lines = 0;
          n = vh_chance(rng, 1, 6) ? 0 : (size_t)vh_range(rng, 1, 70);
          for (k = 0; k < n; k++) {
            tmp[k] = (unsigned char)vh_below(rng, 256);
          }
          if (scratch == NULL || ares_buf_hexdump(scratch, tmp, n) != ARES_SUCCESS) {
            ares_buf_destroy(scratch);
            vh_inconclusive("oom");
            goto cleanup;
          }
          {
            const unsigned char *sp = ares_buf_peek(scratch, &sl);
            for (k = 0; k < sl; k++) {
              if (sp[k] == '\n') {
                lines++;
              }
            }
            if (lines != (n + 15) / 16 || (sl && sp[sl - 1] != '\n')) {
              dsb_viol("hexdump-shape", "%s: hexdump of %zu bytes has %zu lines", what, n, lines);
            }
            st = ares_buf_hexdump(buf, tmp, n);
            if (n) {
              w = dsb_write_status(st, what);
              if (w > 0) {
                dsb_model_append(sp, sl);
              }
            }
          }
          ares_buf_destroy(scratch);
          break;
        }
      case DSB_FETCH_BYTES:
        n = vh_chance(rng, 1, 5) ? rem + 1 + vh_below(rng, 4) : vh_chance(rng, 1, 10) ? 0 : rem ? 1 + vh_below(rng, (uint32_t)(rem > 64 ? 64 : rem)) : 1;
        st = ares_buf_fetch_bytes(buf, dsb_scratch, n);
        if (n == 0 || n > rem) {
          dsb_expect_fail(st, what, n ? "more bytes were requested than remain" : "zero bytes were requested");
          break;
        }
        if (st != ARES_SUCCESS) {
          dsb_viol("fetch-rejected", "%s: fetch of %zu of %zu available bytes returned %d", what, n, rem, (int)st);
          break;
        }
        if (memcmp(dsb_scratch, dsb_A + dsb_c, n) != 0) {
          dsb_viol("fetch-content", "%s: fetched bytes differ from the model", what);
          break;
        }
        dsb_c += n;
        break;
      case DSB_FETCH_BE16:
        {
          unsigned short v = 0;
          st               = ares_buf_fetch_be16(buf, &v);
          if (rem < 2) {
            dsb_expect_fail(st, what, "fewer than 2 bytes remain");
            break;
          }
          if (st != ARES_SUCCESS || v != (unsigned short)((dsb_A[dsb_c] << 8) | dsb_A[dsb_c + 1])) {
            dsb_viol("fetch-content", "%s: fetch_be16 gave status %d value 0x%04x", what, (int)st, v);
            break;
          }
          dsb_c += 2;
          break;
        }
      case DSB_FETCH_BE32:
        {
          unsigned int v = 0;
          st             = ares_buf_fetch_be32(buf, &v);
          if (rem < 4) {
            dsb_expect_fail(st, what, "fewer than 4 bytes remain");
            break;
          }
          if (st != ARES_SUCCESS || v != (((unsigned int)dsb_A[dsb_c] << 24) | ((unsigned int)dsb_A[dsb_c + 1] << 16) |
                                          ((unsigned int)dsb_A[dsb_c + 2] << 8) | dsb_A[dsb_c + 3])) {
            dsb_viol("fetch-content", "%s: fetch_be32 gave status %d value 0x%08x", what, (int)st, v);
            break;
          }
          dsb_c += 4;
          break;
        }
      case DSB_FETCH_DUP:
        {
          unsigned char *out = NULL;
          int            nt  = vh_chance(rng, 1, 2);
          n  = vh_chance(rng, 1, 5) ? rem + 1 + vh_below(rng, 4) : rem ? 1 + vh_below(rng, (uint32_t)(rem > 200 ? 200 : rem)) : 0;
          st = ares_buf_fetch_bytes_dup(buf, n, nt ? ARES_TRUE : ARES_FALSE, &out);
          if (n == 0 || n > rem) {
            dsb_expect_fail(st, what, "the request does not fit the remaining data");
            if (st == ARES_SUCCESS) {
              ares_free(out);
            }
            break;
          }
          if (st == ARES_ENOMEM) {
            break;
          }
          if (st != ARES_SUCCESS || out == NULL || memcmp(out, dsb_A + dsb_c, n) != 0 || (nt && out[n] != 0)) {
            dsb_viol("fetch-content", "%s: fetch_bytes_dup(%zu, null_term=%d) status %d or content differs", what, n, nt, (int)st);
          } else {
            dsb_c += n;
          }
          ares_free(out);
          break;
        }
      case DSB_FETCH_INTO_BUF:
        {
          int to_const = vh_chance(rng, 1, 8);
          n = vh_chance(rng, 1, 5) ? rem + 1 + vh_below(rng, 4) : rem ? 1 + vh_below(rng, (uint32_t)(rem > 100 ? 100 : rem)) : 0;
          if (to_const) {
            /* destination that cannot be appended to: must fail and must not consume */
            static const unsigned char cdata[4] = { 1, 2, 3, 4 };
            ares_buf_t                *cb       = ares_buf_create_const(cdata, sizeof(cdata));
            if (cb != NULL) {
              st = ares_buf_fetch_bytes_into_buf(buf, cb, n);
              if (st == ARES_SUCCESS) {
                dsb_viol("const-write", "%s: fetch_bytes_into_buf into a const destination succeeded", what);
              }
              ares_buf_destroy(cb);
            }
            break;
          }
          st = ares_buf_fetch_bytes_into_buf(buf, dest, n);
          if (n == 0 || n > rem) {
            dsb_expect_fail(st, what, "the request does not fit the remaining data");
          } else if (st == ARES_ENOMEM) {
            break;
          } else if (st != ARES_SUCCESS) {
            dsb_viol("fetch-rejected", "%s: fetch_bytes_into_buf of %zu of %zu bytes returned %d", what, n, rem, (int)st);
          } else {
            if (dsb_dlen + n < sizeof(dsb_D)) {
              memcpy(dsb_D + dsb_dlen, dsb_A + dsb_c, n);
              dsb_dlen += n;
            }
            dsb_c += n;
          }
          if (!vh_case_viol && dsb_dlen < sizeof(dsb_D) - 200) {
            size_t               dl = 0;
            const unsigned char *dp = ares_buf_peek(dest, &dl);
            if (dl != dsb_dlen || (dl && memcmp(dp, dsb_D, dl) != 0)) {
              dsb_viol("into-buf-content", "%s: destination holds %zu bytes, model %zu (or content differs)", what, dl, dsb_dlen);
            }
          }
          break;
        }
      case DSB_FETCH_STR_DUP:
        {
          char *out = NULL;
          n  = vh_chance(rng, 1, 6) ? rem + 1 + vh_below(rng, 4) : rem ? 1 + vh_below(rng, (uint32_t)(rem > 40 ? 40 : rem)) : 0;
          st = ares_buf_fetch_str_dup(buf, n, &out);
          if (n == 0 || n > rem) {
            dsb_expect_fail(st, what, "the request does not fit the remaining data");
            if (st == ARES_SUCCESS) {
              ares_free(out);
            }
            break;
          }
          if (st == ARES_ENOMEM) {
            break;
          }
          if (!dsb_isprint(dsb_A + dsb_c, n)) {
            /* validated to be printable: must be refused, cursor stays */
            if (st == ARES_SUCCESS) {
              dsb_viol("str-unprintable-accepted", "%s: fetch_str_dup accepted non-printable data", what);
              ares_free(out);
            }
            break;
          }
          if (st != ARES_SUCCESS || out == NULL || strlen(out) != n || memcmp(out, dsb_A + dsb_c, n) != 0) {
            dsb_viol("fetch-content", "%s: fetch_str_dup(%zu) status %d or content differs", what, n, (int)st);
          } else {
            dsb_c += n;
          }
          ares_free(out);
          break;
        }
      case DSB_CONSUME:
        n  = vh_chance(rng, 1, 5) ? rem + 1 + vh_below(rng, 4) : vh_below(rng, (uint32_t)(rem > 80 ? 80 : rem) + 1);
        st = ares_buf_consume(buf, n);
        if (n > rem) {
          dsb_expect_fail(st, what, "more bytes were to be consumed than remain");
          break;
        }
        if (st != ARES_SUCCESS) {
          dsb_viol("fetch-rejected", "%s: consume(%zu) with %zu remaining returned %d", what, n, rem, (int)st);
          break;
        }
        dsb_c += n;
        break;
      case DSB_PEEK_BYTE:
        {
          unsigned char b = 0;
          st              = ares_buf_peek_byte(buf, &b);
          if (rem == 0) {
            dsb_expect_fail(st, what, "nothing remains");
          } else if (st != ARES_SUCCESS || b != dsb_A[dsb_c]) {
            dsb_viol("fetch-content", "%s: peek_byte status %d byte 0x%02x model 0x%02x", what, (int)st, b, dsb_A[dsb_c]);
          }
          break;
        }
      case DSB_TAG:
        ares_buf_tag(buf);
        dsb_t = (long)dsb_c;
        vh_count("buf_tags");
        break;
      case DSB_TAG_ROLLBACK:
        st = ares_buf_tag_rollback(buf);
        if (dsb_t < 0) {
          dsb_expect_fail(st, what, "no tag is set");
          break;
        }
        if (st != ARES_SUCCESS) {
          dsb_viol("tag-rejected", "%s: tag_rollback with a tag set returned %d", what, (int)st);
          break;
        }
        dsb_c = (size_t)dsb_t;
        dsb_t = -1;
        vh_count("buf_rollbacks");
        break;
      case DSB_TAG_CLEAR:
        st = ares_buf_tag_clear(buf);
        if (dsb_t < 0) {
          dsb_expect_fail(st, what, "no tag is set");
          break;
        }
        if (st != ARES_SUCCESS) {
          dsb_viol("tag-rejected", "%s: tag_clear with a tag set returned %d", what, (int)st);
          break;
        }
        dsb_t = -1;
        break;
      case DSB_TAG_FETCH_BYTES:
        {
          size_t tl    = dsb_t >= 0 ? dsb_c - (size_t)dsb_t : 0;
          int    small = tl > 0 && vh_chance(rng, 1, 3);
          size_t room  = small ? (size_t)vh_below(rng, (uint32_t)tl) : tl + vh_below(rng, 8);
          size_t io    = room;
          /* exact-size destination so that an over-long copy is an ASan report */
          unsigned char *d = (unsigned char *)malloc(room ? room : 1);
          if (d == NULL) {
            break;
          }
          st = ares_buf_tag_fetch_bytes(buf, d, &io);
          if (dsb_t < 0) {
            dsb_expect_fail(st, what, "no tag is set");
          } else if (small) {
            dsb_expect_fail(st, what, "the destination is smaller than the tagged data");
          } else if (tl == 0 && !dsb_allocated && !dsb_const) {
            /* no storage yet: the zero-length region has no address, failure is an acceptable answer */
          } else if (st != ARES_SUCCESS || io != tl || (tl && memcmp(d, dsb_A + dsb_t, tl) != 0)) {
            dsb_viol("tag-content", "%s: tag_fetch_bytes status %d len %zu model %zu (or content differs)", what, (int)st, io, tl);
          }
          free(d);
          break;
        }
      case DSB_TAG_FETCH_STRING:
        {
          size_t tl    = dsb_t >= 0 ? dsb_c - (size_t)dsb_t : 0;
          int    small = vh_chance(rng, 1, 3);
          size_t room  = small ? (size_t)vh_below(rng, (uint32_t)tl + 1) : tl + 1 + vh_below(rng, 8);
          char  *d     = (char *)malloc(room ? room : 1);
          if (d == NULL) {
            break;
          }
          st = ares_buf_tag_fetch_string(buf, d, room);
          if (dsb_t < 0) {
            dsb_expect_fail(st, what, "no tag is set");
          } else if (small) {
            /* needs tl bytes plus the terminator */
            dsb_expect_fail(st, what, "the destination cannot hold the tagged data and a terminator");
          } else if (tl == 0 && !dsb_allocated && !dsb_const) {
            /* no storage yet, see tag_fetch_bytes */
          } else if (!dsb_isprint(dsb_A + dsb_t, tl)) {
            dsb_expect_fail(st, what, "the tagged data is not printable ASCII");
          } else if (st != ARES_SUCCESS || strlen(d) != tl || memcmp(d, dsb_A + dsb_t, tl) != 0) {
            dsb_viol("tag-content", "%s: tag_fetch_string status %d or content differs (tag len %zu)", what, (int)st, tl);
          }
          free(d);
          break;
        }
      case DSB_TAG_FETCH_STRDUP:
        {
          size_t tl  = dsb_t >= 0 ? dsb_c - (size_t)dsb_t : 0;
          char  *out = NULL;
          st         = ares_buf_tag_fetch_strdup(buf, &out);
          if (st == ARES_ENOMEM) {
            break;
          }
          if (dsb_t < 0) {
            dsb_expect_fail(st, what, "no tag is set");
          } else if (tl == 0 && !dsb_allocated && !dsb_const) {
            /* no storage yet, see tag_fetch_bytes */
          } else if (!dsb_isprint(dsb_A + dsb_t, tl)) {
            dsb_expect_fail(st, what, "the tagged data is not printable ASCII");
          } else if (st != ARES_SUCCESS || out == NULL || strlen(out) != tl || memcmp(out, dsb_A + dsb_t, tl) != 0) {
            dsb_viol("tag-content", "%s: tag_fetch_strdup status %d or content differs (tag len %zu)", what, (int)st, tl);
          }
          if (st == ARES_SUCCESS) {
            ares_free(out);
          }
          break;
        }
      case DSB_TAG_FETCH_CONSTBUF:
        {
          size_t      tl = dsb_t >= 0 ? dsb_c - (size_t)dsb_t : 0;
          ares_buf_t *nb = NULL;
          st             = ares_buf_tag_fetch_constbuf(buf, &nb);
          if (dsb_t < 0) {
            dsb_expect_fail(st, what, "no tag is set");
          } else if (tl == 0) {
            /* a const buffer of zero length cannot exist; either answer is acceptable */
          } else if (st == ARES_ENOMEM) {
            break;
          } else {
            size_t               l2 = 0;
            const unsigned char *p2 = nb ? ares_buf_peek(nb, &l2) : NULL;
            if (st != ARES_SUCCESS || nb == NULL || l2 != tl || memcmp(p2, dsb_A + dsb_t, tl) != 0) {
              dsb_viol("tag-content", "%s: tag_fetch_constbuf status %d or content differs (tag len %zu)", what, (int)st, tl);
            }
          }
          if (st == ARES_SUCCESS) {
            ares_buf_destroy(nb);
          }
          break;
        }
      case DSB_SET_LENGTH:
        {
          int bad = vh_chance(rng, 1, 6);
          n       = bad ? ((size_t)-1) / 2 - vh_below(rng, 100) : vh_below(rng, (uint32_t)rem + 1);
          st      = ares_buf_set_length(buf, n);
          if (dsb_const) {
            dsb_write_status(st, what);
            break;
          }
          if (bad) {
            dsb_expect_fail(st, what, "the length is far beyond any allocation");
            break;
          }
          if (!dsb_allocated && st != ARES_SUCCESS) {
            break; /* nothing allocated yet: the documented precondition (len within the allocation) cannot hold */
          }
          if (st != ARES_SUCCESS) {
            dsb_viol("write-rejected", "%s: set_length(%zu) within the current length %zu returned %d", what, n, rem, (int)st);
            break;
          }
          dsb_alen = dsb_c + n;
          vh_count("buf_set_length");
          break;
        }
      case DSB_SET_POSITION:
        {
          size_t phys_len = dsb_alen - dsb_base;
          int    bad      = vh_chance(rng, 1, 5);
          size_t lo       = dsb_t >= 0 ? (size_t)dsb_t - dsb_base : 0; /* stay at or after an active tag */
          size_t idx      = bad ? phys_len + 1 + vh_below(rng, 5) : lo + vh_below(rng, (uint32_t)(phys_len - lo) + 1);
          st              = ares_buf_set_position(buf, idx);
          if (bad) {
            dsb_expect_fail(st, what, "the index is beyond the data");
            break;
          }
          if (st != ARES_SUCCESS) {
            dsb_viol("position-rejected", "%s: set_position(%zu) with %zu bytes of data returned %d", what, idx, phys_len,
                     (int)st);
            break;
          }
          dsb_c = dsb_base + idx;
          vh_count("buf_set_position");
          break;
        }
      case DSB_EXCURSION:
        {
          /* what name decompression does: remember the position, jump elsewhere, read, come back */
          size_t phys_len = dsb_alen - dsb_base;
          size_t save     = ares_buf_get_position(buf);
          size_t idx      = vh_below(rng, (uint32_t)phys_len + 1);
          size_t avail    = phys_len - idx;
          if (ares_buf_set_position(buf, idx) != ARES_SUCCESS) {
            dsb_viol("position-rejected", "%s: set_position(%zu) with %zu bytes of data failed", what, idx, phys_len);
            break;
          }
          n = avail ? 1 + vh_below(rng, (uint32_t)(avail > 32 ? 32 : avail)) : 0;
          if (n) {
            st = ares_buf_fetch_bytes(buf, tmp, n);
            if (st != ARES_SUCCESS || memcmp(tmp, dsb_A + dsb_base + idx, n) != 0) {
              dsb_viol("fetch-content", "%s: bytes read at position %zu differ from the model (status %d)", what, idx, (int)st);
            }
          } else {
            unsigned char b;
            if (ares_buf_fetch_bytes(buf, &b, 1) == ARES_SUCCESS) {
              dsb_viol("overrun-accepted", "%s: fetch at the end position succeeded", what);
            }
          }
          if (ares_buf_set_position(buf, save) != ARES_SUCCESS) {
            dsb_viol("position-rejected", "%s: restoring position %zu failed", what, save);
          }
          break;
        }
      case DSB_RECLAIM:
        ares_buf_reclaim(buf);
        if (!dsb_const && dsb_allocated) {
          /* documented: discards everything before the cursor, or before the tag when one is active */
          size_t wantbase = (dsb_t >= 0 && (size_t)dsb_t < dsb_c) ? (size_t)dsb_t : dsb_c;
          size_t pos      = ares_buf_get_position(buf);
          if (pos <= dsb_c && dsb_c - pos != wantbase) {
            dsb_viol("reclaim", "%s: after reclaim the position is %zu, model expects %zu", what, pos, dsb_c - wantbase);
          }
          vh_count("buf_reclaim_explicit");
        }
        break;
      case DSB_CONSUME_WS:
      case DSB_CONSUME_NONWS:
      case DSB_CONSUME_LINE:
        {
          int    lf = vh_chance(rng, 1, 2);
          size_t got, want = 0;
          if (op == DSB_CONSUME_WS) {
            while (want < rem && dsb_is_ws(dsb_A[dsb_c + want], lf)) {
              want++;
            }
            got = ares_buf_consume_whitespace(buf, lf ? ARES_TRUE : ARES_FALSE);
          } else if (op == DSB_CONSUME_NONWS) {
            while (want < rem && !dsb_is_ws(dsb_A[dsb_c + want], 1)) {
              want++;
            }
            got = ares_buf_consume_nonwhitespace(buf);
          } else {
            while (want < rem && dsb_A[dsb_c + want] != '\n') {
              want++;
            }
            if (lf && want < rem) {
              want++;
            }
            got = ares_buf_consume_line(buf, lf ? ARES_TRUE : ARES_FALSE);
          }
          if (got != want) {
            dsb_viol("consume-count", "%s: consumed %zu, reference %zu (include_linefeed=%d)", what, got, want, lf);
            break;
          }
          dsb_c += want;
          break;
        }
      case DSB_CONSUME_CHARSET:
      case DSB_CONSUME_UNTIL_CHARSET:
        {
          static const char *const sets[] = { " ", ",", "\n", ",;", " \t\r\n", "abcde", "0123456789", "XYZ=/" };
          const char              *set    = sets[vh_below(rng, 8)];
          size_t                   sl     = strlen(set);
          size_t                   got, want = 0;
          int                      require = vh_chance(rng, 1, 2);
          if (op == DSB_CONSUME_CHARSET) {
            while (want < rem && memchr(set, dsb_A[dsb_c + want], sl) != NULL) {
              want++;
            }
            got = ares_buf_consume_charset(buf, (const unsigned char *)set, sl);
          } else {
            while (want < rem && memchr(set, dsb_A[dsb_c + want], sl) == NULL) {
              want++;
            }
            if (require && want == rem) {
              want = SIZE_MAX; /* not found: reports SIZE_MAX and consumes nothing */
            }
            if (rem == 0) {
              want = 0; /* an empty buffer yields 0 whatever is asked */
            }
            got = ares_buf_consume_until_charset(buf, (const unsigned char *)set, sl, require ? ARES_TRUE : ARES_FALSE);
          }
          if (got != want) {
            dsb_viol("consume-count", "%s: consumed %zu, reference %zu (set '%s' require=%d)", what, got, want, set, require);
            break;
          }
          if (want != SIZE_MAX) {
            dsb_c += want;
          }
          break;
        }
      case DSB_CONSUME_UNTIL_SEQ:
        {
          size_t got, want = 0, sl;
          int    require = vh_chance(rng, 1, 2);
          int    found   = 0;
          /* take the sequence from the data ahead (so that it is often present) or make one up */
          if (rem >= 2 && vh_chance(rng, 2, 3)) {
            size_t at = vh_below(rng, (uint32_t)rem - 1);
            sl        = 1 + vh_below(rng, (uint32_t)((rem - at) > 4 ? 4 : (rem - at)));
            memcpy(tmp, dsb_A + dsb_c + at, sl);
          } else {
            sl = (size_t)vh_range(rng, 1, 3);
            for (k = 0; k < sl; k++) {
              tmp[k] = dsb_byte(rng);
            }
          }
          for (want = 0; want + sl <= rem; want++) {
            if (memcmp(dsb_A + dsb_c + want, tmp, sl) == 0) {
              found = 1;
              break;
            }
          }
          if (!found) {
            want = require ? SIZE_MAX : rem;
          }
          if (rem == 0) {
            want = 0;
          }
          got = ares_buf_consume_until_seq(buf, tmp, sl, require ? ARES_TRUE : ARES_FALSE);
          if (got != want) {
            dsb_viol("consume-count", "%s: consume_until_seq consumed %zu, reference %zu (seq len %zu require=%d)", what, got,
                     want, sl, require);
            break;
          }
          if (want != SIZE_MAX) {
            dsb_c += want;
          }
          break;
        }
      case DSB_BEGINS_WITH:
        {
          ares_bool_t got;
          int         want;
          n = (size_t)vh_range(rng, 1, 6);
          if (rem >= n && vh_chance(rng, 2, 3)) {
            memcpy(tmp, dsb_A + dsb_c, n);
            if (vh_chance(rng, 1, 4)) {
              tmp[n - 1] ^= 0x20;
            }
          } else {
            for (k = 0; k < n; k++) {
              tmp[k] = dsb_byte(rng);
            }
          }
          want = n <= rem && memcmp(tmp, dsb_A + dsb_c, n) == 0;
          got  = ares_buf_begins_with(buf, tmp, n);
          if ((got == ARES_TRUE) != want) {
            dsb_viol("begins-with", "%s: begins_with(%zu bytes) answered %d, reference %d", what, n, (int)got, want);
          }
          break;
        }
      case DSB_SPLIT_COPY:
        {
          /* split a const buffer laid over an exact-size copy of the unread data */
          size_t         take = rem > 600 ? 600 : rem;
          unsigned char *copy;
          ares_buf_t    *cb;
          if (take == 0) {
            break;
          }
          copy = (unsigned char *)malloc(take);
          if (copy == NULL) {
            break;
          }
          memcpy(copy, dsb_A + dsb_c, take);
          cb = ares_buf_create_const(copy, take);
          if (cb != NULL) {
            dsb_do_split(cb, copy, take, rng, what);
            ares_buf_destroy(cb);
          }
          free(copy);
          break;
        }
      case DSB_SPLIT_SELF:
        {
          /* splitting the buffer itself consumes it to the end; what it leaves as tag is not specified,
           * so the tag is cleared on both sides afterwards */
          size_t before = vh_case_viol;
          if (rem > 3000) {
            break;
          }
          memcpy(tmp, dsb_A + dsb_c, rem);
          dsb_do_split(buf, tmp, rem, rng, what);
          if ((size_t)vh_case_viol != before) {
            break;
          }
          if (ares_buf_len(buf) == 0) {
            dsb_c = dsb_alen;
          }
          (void)ares_buf_tag_clear(buf);
          dsb_t = -1;
          break;
        }
      case DSB_REPLACE:
        {
          size_t sl, rl, out = 0, at;
          unsigned char srch[8], rplc[16];
          static unsigned char tail[DSB_MAX + 4096];
          if (rem > 4000) {
            break;
          }
          if (rem >= 1 && vh_chance(rng, 3, 4)) {
            at = vh_below(rng, (uint32_t)rem);
            sl = 1 + vh_below(rng, (uint32_t)((rem - at) > 3 ? 3 : (rem - at)));
            memcpy(srch, dsb_A + dsb_c + at, sl);
          } else {
            sl = (size_t)vh_range(rng, 1, 3);
            for (k = 0; k < sl; k++) {
              srch[k] = dsb_byte(rng);
            }
          }
          rl = vh_below(rng, 9);
          for (k = 0; k < rl; k++) {
            rplc[k] = dsb_byte(rng);
          }
          st = ares_buf_replace(buf, srch, sl, rl ? rplc : NULL, rl);
          if (dsb_const || !dsb_allocated) {
            if (dsb_const) {
              dsb_write_status(st, what);
            }
            break;
          }
          if (st == ARES_ENOMEM) {
            vh_inconclusive("oom");
            goto cleanup;
          }
          if (st != ARES_SUCCESS) {
            dsb_viol("write-rejected", "%s: replace returned %d", what, (int)st);
            break;
          }
          /* reference: left to right, non-overlapping, replacement text is not rescanned */
          for (at = 0; at < rem;) {
            if (at + sl <= rem && memcmp(dsb_A + dsb_c + at, srch, sl) == 0) {
              memcpy(tail + out, rplc, rl);
              out += rl;
              at += sl;
            } else {
              tail[out++] = dsb_A[dsb_c + at++];
            }
            if (out > DSB_MAX - 30000) {
              break;
            }
          }
          if (at < rem) {
            vh_inconclusive("replace-too-large");
            goto cleanup;
          }
          memcpy(dsb_A + dsb_c, tail, out);
          dsb_alen = dsb_c + out;
          vh_count("buf_replace");
          break;
        }
      default:
        break;
    }
    if (!vh_case_viol) {
      dsb_sync(buf, what);
    }
    if (op >= DSB_FETCH_BYTES && op <= DSB_CONSUME && dsb_c > 0) {
      ds_removals++; /* something was consumed at some point: the case exercises "minus those consumed" */
    }
  }

  /* ---- end of life: finish_bin / finish_str / destroy ---- */
  if (!vh_case_viol && buf != NULL) {
    int how = vh_range(rng, 0, 2);
    OP(DSB_FINISH);
    dsb_site = "finish";
    if (dsb_t >= 0 && vh_chance(rng, 1, 2)) {
      ares_buf_tag_clear(buf);
      dsb_t = -1;
    }
    if (how < 2) {
      size_t         flen = 4242;
      unsigned char *out  = how == 0 ? ares_buf_finish_bin(buf, &flen) : (unsigned char *)ares_buf_finish_str(buf, &flen);
      if (dsb_const) {
        if (out != NULL) {
          dsb_viol("const-write", "finish on a const buffer returned data");
        }
        /* still ours */
      } else if (out == NULL) {
        /* only out of memory can refuse; the buffer is then still ours */
        vh_inconclusive("finish-refused");
      } else {
        size_t rem  = dsb_alen - dsb_c;
        size_t trem = dsb_t >= 0 ? dsb_alen - (size_t)dsb_t : rem;
        buf         = NULL; /* consumed by finish */
        /* with an active tag, reclaim defines the unprocessed data as starting at the tag */
        if (flen == rem && (rem == 0 || memcmp(out, dsb_A + dsb_c, rem) == 0)) {
          /* ok */
        } else if (dsb_t >= 0 && flen == trem && memcmp(out, dsb_A + dsb_t, trem) == 0) {
          vh_count("buf_finish_from_tag");
        } else {
          dsb_viol("finish-content", "finish_%s returned %zu bytes, model has %zu unread (alen %zu cursor %zu tag %ld)",
                   how == 0 ? "bin" : "str", flen, rem, dsb_alen, dsb_c, dsb_t);
        }
        if (how == 1 && !vh_case_viol && out[flen] != 0) {
          dsb_viol("finish-content", "finish_str result is not NUL terminated at its length %zu", flen);
        }
        ares_free(out);
        vh_count(how == 0 ? "buf_finish_bin" : "buf_finish_str");
      }
    }
  }

cleanup:
  ares_buf_destroy(buf);
  ares_buf_destroy(dest);
  free(constmem);
  if (sb.b) {
    vh_sb_printf(&sb, "],\"nops\":%d,\"appended\":%zu,\"consumed\":%zu}", ds_nops, dsb_alen, dsb_c);
    vh_sample(sb.b);
    free(sb.b);
  }
}
