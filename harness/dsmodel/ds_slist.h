/* ds_slist.h - ares_slist_t (skip list) vs. a plain set-of-ids model.
 *
 * Value = {id, key}; ids are unique per case, keys come from a small range so that duplicates are
 * common.  The skip list is created with a real ares_rand_state; the random bytes the library draws
 * for its coin flips come from a per-case seeded stream (arc4random_buf / rand are defined here and
 * take precedence over libc in the harness executable), so a case is a pure function of its seed and
 * the tower heights can be biased tall or flat per case.
 *
 * Oracle after every operation:
 *   forward walk (node_first/node_next) is non-decreasing under cmp, visits each live id exactly once
 *   and nothing else; backward walk (node_last/node_prev) is the exact reverse; len == model count;
 *   first_val/last_val carry the minimum/maximum key; find(k) returns a node whose value compares
 *   equal to k iff the model holds such a key; the destructor in force ran exactly once for every
 *   destroyed element and never for a claimed one.
 */

typedef struct {
  uint32_t           id;
  int                key;
  ares_slist_node_t *node; /* handle returned by insert; stays valid across reinsert */
  int                live; /* in the list according to the model */
  size_t             pos;  /* index in dss_live[] */
} dss_elem_t;

#define DSS_MAXID (DS_MAXOPS + 8)
static dss_elem_t dss_pool[DSS_MAXID];
static uint32_t   dss_live[DSS_MAXID];
static size_t     dss_nlive;
static uint32_t   dss_next_id;
static uint8_t    dss_des[2][DSS_MAXID];    /* calls seen, per destructor */
static uint8_t    dss_expect[2][DSS_MAXID]; /* calls the model expects */
static uint32_t   dss_seen[DSS_MAXID];      /* walk stamp */
static uint32_t   dss_stamp;
static uint32_t   dss_fwd[DSS_MAXID];

/* ---- library-side randomness: per-case seeded, optionally biased ---- */
static vh_rng_t dss_lib_rng;
static int      dss_lib_bias; /* 0 fair, 1 mostly ones (tall towers), 2 mostly zeros (flat) */

static unsigned char dss_lib_byte(void)
{
  uint64_t a = vh_rand64(&dss_lib_rng);
  uint64_t b = vh_rand64(&dss_lib_rng);
  if (dss_lib_bias == 1) {
    a |= b;
  } else if (dss_lib_bias == 2) {
    a &= b;
  }
  return (unsigned char)(a >> 24);
}

void arc4random_buf(void *buf, size_t n)
{
  unsigned char *p = (unsigned char *)buf;
  size_t         i;
  for (i = 0; i < n; i++) {
    p[i] = dss_lib_byte();
  }
}

/* the deterministic flavor keys an RC4 stream from srand(0)/rand() */
void srand(unsigned int seed)
{
  (void)seed;
}

int rand(void)
{
  return (int)dss_lib_byte() | ((int)dss_lib_byte() << 8);
}

static void dss_destruct_a(void *p)
{
  dss_elem_t *e = (dss_elem_t *)p;
  if (e->id < DSS_MAXID && dss_des[0][e->id] < 255) {
    dss_des[0][e->id]++;
  }
}

static void dss_destruct_b(void *p)
{
  dss_elem_t *e = (dss_elem_t *)p;
  if (e->id < DSS_MAXID && dss_des[1][e->id] < 255) {
    dss_des[1][e->id]++;
  }
}

static int dss_cmp(const void *a, const void *b)
{
  const dss_elem_t *x = (const dss_elem_t *)a, *y = (const dss_elem_t *)b;
  if (x->key != y->key) {
    return x->key < y->key ? -1 : 1;
  }
  return 0;
}

static void dss_model_add(dss_elem_t *e)
{
  e->live               = 1;
  e->pos                = dss_nlive;
  dss_live[dss_nlive++] = e->id;
}

static void dss_model_del(dss_elem_t *e)
{
  uint32_t last      = dss_live[dss_nlive - 1];
  dss_live[e->pos]   = last;
  dss_pool[last].pos = e->pos;
  dss_nlive--;
  e->live = 0;
  e->node = NULL;
}

static int dss_compare(ares_slist_t *list, const char *after)
{
  ares_slist_node_t *n;
  const dss_elem_t  *prev = NULL;
  size_t             cnt  = 0;
  size_t             k;
  int                minkey = 0, maxkey = 0;

  if (ares_slist_len(list) != dss_nlive) {
    vh_violation("ds:slist:len", "after %s: len=%zu model=%zu", after, ares_slist_len(list), dss_nlive);
    return 0;
  }
  dss_stamp++;
  for (n = ares_slist_node_first(list); n != NULL; n = ares_slist_node_next(n)) {
    const dss_elem_t *e = (const dss_elem_t *)ares_slist_node_val(n);
    if (cnt >= dss_nlive) {
      vh_violation("ds:slist:extra", "after %s: forward walk yields more than the %zu live elements", after, dss_nlive);
      return 0;
    }
    if (e == NULL || e < dss_pool || e >= dss_pool + DSS_MAXID) {
      vh_violation("ds:slist:foreign-value", "after %s: node %zu carries a value never inserted", after, cnt);
      return 0;
    }
    if (!e->live) {
      vh_violation("ds:slist:resurrected", "after %s: id %u (key %d) was removed but is still reachable", after, e->id,
                   e->key);
      return 0;
    }
    if (dss_seen[e->id] == dss_stamp) {
      vh_violation("ds:slist:duplicated", "after %s: id %u (key %d) reached twice in one walk", after, e->id, e->key);
      return 0;
    }
    dss_seen[e->id] = dss_stamp;
    if (prev != NULL && dss_cmp(prev, e) > 0) {
      vh_violation("ds:slist:unsorted", "after %s: key %d (id %u) precedes key %d (id %u) at position %zu", after,
                   prev->key, prev->id, e->key, e->id, cnt);
      return 0;
    }
    if (ares_slist_node_parent(n) != list) {
      vh_violation("ds:slist:parent", "after %s: node of id %u reports a different parent", after, e->id);
      return 0;
    }
    if (e->node != n) {
      vh_violation("ds:slist:node-identity", "after %s: id %u reached through a node other than the one insert returned",
                   after, e->id);
      return 0;
    }
    dss_fwd[cnt++] = e->id;
    prev           = e;
  }
  if (cnt != dss_nlive) {
    /* name one that is missing */
    for (k = 0; k < dss_nlive; k++) {
      if (dss_seen[dss_live[k]] != dss_stamp) {
        break;
      }
    }
    vh_violation("ds:slist:lost", "after %s: forward walk reached %zu of %zu live elements (e.g. id %u key %d missing)",
                 after, cnt, dss_nlive, k < dss_nlive ? dss_live[k] : 0, k < dss_nlive ? dss_pool[dss_live[k]].key : 0);
    return 0;
  }
  /* backward walk = exact reverse */
  k = cnt;
  for (n = ares_slist_node_last(list); n != NULL; n = ares_slist_node_prev(n)) {
    const dss_elem_t *e = (const dss_elem_t *)ares_slist_node_val(n);
    if (k == 0) {
      vh_violation("ds:slist:backward", "after %s: backward walk longer than forward walk (%zu)", after, cnt);
      return 0;
    }
    k--;
    if (e == NULL || e < dss_pool || e >= dss_pool + DSS_MAXID || e->id != dss_fwd[k]) {
      vh_violation("ds:slist:backward", "after %s: backward walk differs from reversed forward walk at position %zu", after,
                   k);
      return 0;
    }
  }
  if (k != 0) {
    vh_violation("ds:slist:backward", "after %s: backward walk from node_last stops after %zu of %zu elements", after,
                 cnt - k, cnt);
    return 0;
  }
  /* first/last */
  if (dss_nlive == 0) {
    if (ares_slist_node_first(list) != NULL || ares_slist_node_last(list) != NULL || ares_slist_first_val(list) != NULL ||
        ares_slist_last_val(list) != NULL) {
      vh_violation("ds:slist:firstlast", "after %s: first/last non-NULL on an empty list", after);
      return 0;
    }
    return 1;
  }
  minkey = maxkey = dss_pool[dss_live[0]].key;
  for (k = 1; k < dss_nlive; k++) {
    int key = dss_pool[dss_live[k]].key;
    if (key < minkey) {
      minkey = key;
    }
    if (key > maxkey) {
      maxkey = key;
    }
  }
  {
    const dss_elem_t *f = (const dss_elem_t *)ares_slist_first_val(list);
    const dss_elem_t *l = (const dss_elem_t *)ares_slist_last_val(list);
    if (f == NULL || l == NULL || f->key != minkey || l->key != maxkey) {
      vh_violation("ds:slist:firstlast", "after %s: first_val key %d / last_val key %d, model min %d max %d", after,
                   f ? f->key : -1, l ? l->key : -1, minkey, maxkey);
      return 0;
    }
  }
  return 1;
}

static int dss_check_destructed(const char *after)
{
  uint32_t i;
  int      d;
  for (d = 0; d < 2; d++) {
    if (memcmp(dss_des[d], dss_expect[d], dss_next_id) == 0) {
      continue;
    }
    for (i = 0; i < dss_next_id; i++) {
      if (dss_des[d][i] != dss_expect[d][i]) {
        vh_violation("ds:slist:destructor", "after %s: id %u destructed %u times by destructor %c, model %u", after, i,
                     dss_des[d][i], 'A' + d, dss_expect[d][i]);
        return 0;
      }
    }
  }
  return 1;
}

static int dss_find_check(ares_slist_t *list, int key, const char *what)
{
  dss_elem_t         probe;
  ares_slist_node_t *n;
  size_t             k;
  int                present = 0;
  memset(&probe, 0, sizeof(probe));
  probe.id  = 0xffffffffU;
  probe.key = key;
  for (k = 0; k < dss_nlive; k++) {
    if (dss_pool[dss_live[k]].key == key) {
      present = 1;
      break;
    }
  }
  n = ares_slist_node_find(list, &probe);
  vh_count(present ? "slist_find_hit" : "slist_find_miss");
  if (present && n == NULL) {
    vh_violation("ds:slist:find-missed", "%s: find(key %d) returned NULL but id %u holds that key", what, key, dss_live[k]);
    return 0;
  }
  if (!present && n != NULL) {
    const dss_elem_t *e = (const dss_elem_t *)ares_slist_node_val(n);
    vh_violation("ds:slist:find-phantom", "%s: find(key %d) returned a node (key %d) but no live element has that key", what,
                 key, e ? e->key : -1);
    return 0;
  }
  if (n != NULL) {
    const dss_elem_t *e = (const dss_elem_t *)ares_slist_node_val(n);
    if (e == NULL || e < dss_pool || e >= dss_pool + DSS_MAXID || !e->live || e->key != key) {
      vh_violation("ds:slist:find-wrong", "%s: find(key %d) returned a node with key %d (live=%d)", what, key,
                   e ? e->key : -1, e ? e->live : -1);
      return 0;
    }
  }
  return 1;
}

enum {
  DSS_INSERT = 1,
  DSS_FIND,
  DSS_CLAIM,
  DSS_DESTROY_NODE,
  DSS_REINSERT,
  DSS_POP_FIRST,
  DSS_POP_LAST,
  DSS_REPLACE_DES,
  DSS_REINSERT_SAME,
  DSS_BURST,
  DSS_DESTROY
};

static void ds_slist_case(vh_rng_t *rng)
{
  ares_rand_state *rs;
  ares_slist_t    *list;
  int              nops     = vh_chance(rng, 1, 8) ? vh_range(rng, 200, 1500) : vh_range(rng, 4, 120);
  int              bias     = vh_range(rng, 0, 3); /* 0 balanced, 1 grow, 2 timeout queue, 3 reinsert-heavy */
  int              keyrange = vh_chance(rng, 1, 4) ? 4 : vh_chance(rng, 1, 2) ? 24 : 1000;
  int              curdes   = vh_range(rng, -1, 1); /* -1 none, 0 A, 1 B */
  int              clock    = 0;
  int              i;
  char             what[96];
  vh_sb_t          sb = { 0 };

  vh_rng_seed(&dss_lib_rng, vh_rand64(rng));
  dss_lib_bias = vh_range(rng, 0, 2);
  memset(dss_des, 0, sizeof(dss_des));
  memset(dss_expect, 0, sizeof(dss_expect));
  dss_nlive   = 0;
  dss_next_id = 0;

  rs = ares_init_rand_state();
  if (rs == NULL) {
    vh_inconclusive("oom");
    return;
  }
  list = ares_slist_create(rs, dss_cmp, curdes < 0 ? NULL : curdes == 0 ? dss_destruct_a : dss_destruct_b);
  if (list == NULL) {
    ares_destroy_rand_state(rs);
    vh_inconclusive("oom");
    return;
  }
  if (vh_want_sample()) {
    vh_sb_printf(&sb, "{\"container\":\"slist\",\"bias\":%d,\"keyrange\":%d,\"coin\":%d,\"ops\":[", bias, keyrange,
                 dss_lib_bias);
  }

  for (i = 0; i < nops && !vh_case_viol; i++) {
    int op;
    int r = vh_range(rng, 0, 99);
    int ins_w = bias == 1 ? 60 : bias == 2 ? 40 : bias == 3 ? 25 : 40;

    if (r < ins_w) {
      op = DSS_INSERT;
    } else if (r < ins_w + 12) {
      op = DSS_FIND;
    } else if (r < 92) {
      static const int rm[] = { DSS_CLAIM, DSS_DESTROY_NODE, DSS_REINSERT, DSS_POP_FIRST, DSS_POP_LAST };
      op                    = rm[vh_below(rng, 5)];
      if (bias == 2) {
        op = vh_chance(rng, 2, 3) ? DSS_POP_FIRST : vh_chance(rng, 1, 2) ? DSS_REINSERT : DSS_CLAIM;
      } else if (bias == 3 && vh_chance(rng, 2, 3)) {
        op = DSS_REINSERT;
      }
    } else if (r < 94) {
      op = DSS_REPLACE_DES;
    } else if (r < 96) {
      op = DSS_REINSERT_SAME;
    } else {
      op = DSS_BURST;
    }
    if (dss_next_id >= DS_MAXOPS - 40) {
      break;
    }
    OP(op);
    if (sb.b && i < 40) {
      vh_sb_printf(&sb, "%s%d", i ? "," : "", op);
    }
    snprintf(what, sizeof(what), "op#%d kind=%d n=%zu", i, op, dss_nlive);
    clock += vh_range(rng, 0, 3);

    switch (op) {
      case DSS_INSERT:
      case DSS_BURST:
        {
          int cnt = op == DSS_BURST ? vh_range(rng, 8, 30) : 1;
          int same = vh_chance(rng, 1, 2);
          int key0 = vh_below(rng, (uint32_t)keyrange);
          while (cnt-- > 0 && !vh_case_viol) {
            dss_elem_t *e = &dss_pool[dss_next_id];
            memset(e, 0, sizeof(*e));
            e->id  = dss_next_id;
            e->key = bias == 2 ? clock + (int)vh_below(rng, (uint32_t)keyrange)
                     : (op == DSS_BURST && same) ? key0
                                                 : (int)vh_below(rng, (uint32_t)keyrange);
            e->node = ares_slist_insert(list, e);
            if (e->node == NULL) {
              vh_inconclusive("oom");
              goto teardown;
            }
            dss_next_id++;
            dss_model_add(e);
            vh_count("slist_insert");
            if (ares_slist_node_val(e->node) != e) {
              vh_violation("ds:slist:insert-value", "%s: node returned by insert carries another value", what);
            }
          }
          break;
        }
      case DSS_FIND:
        dss_find_check(list, (int)vh_below(rng, (uint32_t)keyrange + 2) - 1 + (bias == 2 ? clock : 0), what);
        break;
      case DSS_CLAIM:
      case DSS_DESTROY_NODE:
      case DSS_POP_FIRST:
      case DSS_POP_LAST:
        {
          dss_elem_t        *e;
          ares_slist_node_t *n;
          if (dss_nlive == 0) {
            /* NULL node is documented as a no-op */
            if (ares_slist_node_claim(NULL) != NULL) {
              vh_violation("ds:slist:claim-null", "%s: claim(NULL) returned a value", what);
            }
            ares_slist_node_destroy(NULL);
            break;
          }
          if (op == DSS_POP_FIRST) {
            n = ares_slist_node_first(list);
            e = (dss_elem_t *)ares_slist_node_val(n);
          } else if (op == DSS_POP_LAST) {
            n = ares_slist_node_last(list);
            e = (dss_elem_t *)ares_slist_node_val(n);
          } else {
            e = &dss_pool[dss_live[vh_below(rng, (uint32_t)dss_nlive)]];
            n = e->node;
          }
          if (n == NULL || e == NULL || e < dss_pool || e >= dss_pool + DSS_MAXID || !e->live) {
            vh_violation("ds:slist:firstlast", "%s: node_first/node_last gave no live element on a list of %zu", what,
                         dss_nlive);
            break;
          }
          if (op == DSS_DESTROY_NODE || (op != DSS_CLAIM && vh_chance(rng, 1, 2))) {
            ares_slist_node_destroy(n);
            if (curdes >= 0) {
              dss_expect[curdes][e->id]++;
            }
            vh_count("slist_node_destroy");
          } else {
            void *v = ares_slist_node_claim(n);
            if (v != e) {
              vh_violation("ds:slist:claim-value", "%s: claim of id %u returned another value", what, e->id);
            }
            vh_count("slist_claim");
          }
          dss_model_del(e);
          ds_removals++;
          break;
        }
      case DSS_REINSERT:
      case DSS_REINSERT_SAME:
        {
          dss_elem_t *e;
          if (dss_nlive == 0) {
            ares_slist_node_reinsert(NULL);
            break;
          }
          e = &dss_pool[dss_live[vh_below(rng, (uint32_t)dss_nlive)]];
          if (op == DSS_REINSERT) {
            /* the value's key changes in place, then the node is told to find its new position */
            int nk = bias == 2 ? clock + (int)vh_below(rng, (uint32_t)keyrange) : (int)vh_below(rng, (uint32_t)keyrange);
            if (vh_chance(rng, 1, 4)) {
              nk = e->key + vh_range(rng, -1, 1);
            }
            e->key = nk;
          }
          ares_slist_node_reinsert(e->node);
          vh_count("slist_reinsert");
          break;
        }
      case DSS_REPLACE_DES:
        curdes = vh_range(rng, -1, 1);
        ares_slist_replace_destructor(list, curdes < 0 ? NULL : curdes == 0 ? dss_destruct_a : dss_destruct_b);
        break;
      default:
        break;
    }
    if (!vh_case_viol) {
      dss_compare(list, what);
      vh_count("slist_full_compare");
    }
    if (!vh_case_viol) {
      dss_check_destructed(what);
    }
    /* look up a key that is present and one drawn at random */
    if (!vh_case_viol && dss_nlive && (i & 3) == 0) {
      dss_find_check(list, dss_pool[dss_live[vh_below(rng, (uint32_t)dss_nlive)]].key, what);
    }
  }

teardown:
  OP(DSS_DESTROY);
  if (!vh_case_viol) {
    size_t k;
    /* find every live key once more before the end */
    for (k = 0; k < dss_nlive && k < 64 && !vh_case_viol; k++) {
      dss_find_check(list, dss_pool[dss_live[k]].key, "final");
    }
    for (k = 0; k < dss_nlive; k++) {
      if (curdes >= 0) {
        dss_expect[curdes][dss_live[k]]++;
      }
    }
  }
  if (vh_case_viol) {
    /* structure is suspect: abandon it rather than walking it again */
    uint32_t k;
    for (k = 0; k < dss_next_id; k++) {
      ds_abandon(dss_pool[k].node);
    }
    ds_abandon(list);
  } else {
    ares_slist_destroy(list);
  }
  ares_destroy_rand_state(rs);
  if (!vh_case_viol) {
    dss_check_destructed("destroy");
  }
  if (sb.b) {
    vh_sb_printf(&sb, "],\"nops\":%d,\"final_len\":%zu}", ds_nops, dss_nlive);
    vh_sample(sb.b);
    free(sb.b);
  }
}
