/* ds_slist.h - TODO */
static void ds_slist_case(vh_rng_t *rng) { (void)rng; vh_inconclusive("not-implemented"); }
