/* ds_record.h - the public DNS record API (ares_dns_record.h) as a container of resource records.
 *
 * One record; per section (answer, authority, additional) the model is a vector of entries
 * {type, name, ttl, unique marker}.  The marker lives where the type allows: the address of an A /
 * AAAA, the host name of an NS/CNAME/PTR, the string list of a TXT (ares_dns_rr_add_abin /
 * del_abin), the option list of an OPT/SVCB/HTTPS (ares_dns_rr_set_opt / del_opt_byid).
 *
 * Oracle after every operation: rr_cnt of every section equals the model, rr_get(idx) for every
 * index returns the entry the model has at that index (type, class, ttl, name, marker, string list,
 * option list in order) and rr_get(cnt) is NULL.  Resource records are addressed by index only; no
 * rr pointer is kept across operations.
 */

typedef struct {
  unsigned short id;
  unsigned       vid; /* value number: the bytes are "o<vid>" repeated to vlen */
  unsigned       vlen;
  int            has_val;
} dsr_opt_t;

#define DSR_MAXSUB 12
typedef struct {
  ares_dns_rec_type_t type;
  unsigned            marker;
  unsigned            ttl;
  int                 nsub;           /* TXT strings or options */
  unsigned            sub[DSR_MAXSUB]; /* TXT: string numbers */
  dsr_opt_t           opt[DSR_MAXSUB];
} dsr_ent_t;

#define DSR_MAXRR 80
static dsr_ent_t dsr_model[4][DSR_MAXRR + 4]; /* indexed by ares_dns_section_t (1..3) */
static size_t    dsr_cnt[4];
static unsigned  dsr_next_marker;
static const char *dsr_site = "init";

static void dsr_viol(const char *rule, const char *fmt, ...)
{
  char    key[96];
  char    buf[1024];
  va_list ap;
  va_start(ap, fmt);
  vsnprintf(buf, sizeof(buf), fmt, ap);
  va_end(ap);
  snprintf(key, sizeof(key), "ds:record:%s:%s", rule, dsr_site);
  vh_violation(key, "%s", buf);
}

static const char *dsr_name(unsigned marker)
{
  static char b[48];
  snprintf(b, sizeof(b), "n%u.example.com", marker);
  return b;
}

static const char *dsr_host(unsigned marker)
{
  static char b[48];
  snprintf(b, sizeof(b), "h%u.target.example", marker);
  return b;
}

static size_t dsr_txt(unsigned num, unsigned char *out)
{
  /* length varies with the number; may contain a NUL to make sure lengths are honoured */
  size_t len = (size_t)snprintf((char *)out, 40, "t%u-%s", num, (num % 3) == 0 ? "abcdefghij" : "x");
  if ((num % 5) == 0) {
    out[1] = 0;
  }
  return len;
}

static size_t dsr_optval(const dsr_opt_t *o, unsigned char *out)
{
  char   pat[16];
  size_t pl = (size_t)snprintf(pat, sizeof(pat), "o%u", o->vid), k;
  for (k = 0; k < o->vlen; k++) {
    out[k] = (unsigned char)pat[k % pl];
  }
  return o->vlen;
}

static ares_dns_rr_key_t dsr_optkey(ares_dns_rec_type_t t)
{
  return t == ARES_REC_TYPE_OPT ? ARES_RR_OPT_OPTIONS : t == ARES_REC_TYPE_SVCB ? ARES_RR_SVCB_PARAMS : ARES_RR_HTTPS_PARAMS;
}

static int dsr_is_opt_type(ares_dns_rec_type_t t)
{
  return t == ARES_REC_TYPE_OPT || t == ARES_REC_TYPE_SVCB || t == ARES_REC_TYPE_HTTPS;
}

static ares_dns_rr_key_t dsr_hostkey(ares_dns_rec_type_t t)
{
  return t == ARES_REC_TYPE_NS ? ARES_RR_NS_NSDNAME : t == ARES_REC_TYPE_CNAME ? ARES_RR_CNAME_CNAME : ARES_RR_PTR_DNAME;
}

static int dsr_compare_rr(const ares_dns_rr_t *rr, const dsr_ent_t *m, int sect, size_t idx, const char *after)
{
  const char *nm = ares_dns_rr_get_name(rr);
  int         k;
  if (ares_dns_rr_get_type(rr) != m->type || ares_dns_rr_get_ttl(rr) != m->ttl || ares_dns_rr_get_class(rr) != ARES_CLASS_IN ||
      nm == NULL || strcmp(nm, dsr_name(m->marker)) != 0) {
    dsr_viol("order", "after %s: section %d index %zu is type %d ttl %u name '%s', model type %d ttl %u name '%s'", after, sect,
             idx, (int)ares_dns_rr_get_type(rr), ares_dns_rr_get_ttl(rr), nm ? nm : "(null)", (int)m->type, m->ttl,
             dsr_name(m->marker));
    return 0;
  }
  switch (m->type) {
    case ARES_REC_TYPE_A:
      {
        const struct in_addr *a = ares_dns_rr_get_addr(rr, ARES_RR_A_ADDR);
        unsigned              v = 0;
        if (a != NULL) {
          memcpy(&v, a, sizeof(v));
        }
        if (a == NULL || v != m->marker) {
          dsr_viol("data", "after %s: section %d index %zu: A address carries marker %u, model %u", after, sect, idx, v, m->marker);
          return 0;
        }
        break;
      }
    case ARES_REC_TYPE_AAAA:
      {
        const struct ares_in6_addr *a = ares_dns_rr_get_addr6(rr, ARES_RR_AAAA_ADDR);
        unsigned                    v = 0;
        if (a != NULL) {
          memcpy(&v, (const unsigned char *)a + 4, sizeof(v));
        }
        if (a == NULL || v != m->marker) {
          dsr_viol("data", "after %s: section %d index %zu: AAAA address carries marker %u, model %u", after, sect, idx, v,
                   m->marker);
          return 0;
        }
        break;
      }
    case ARES_REC_TYPE_NS:
    case ARES_REC_TYPE_CNAME:
    case ARES_REC_TYPE_PTR:
      {
        const char *h = ares_dns_rr_get_str(rr, dsr_hostkey(m->type));
        if (h == NULL || strcmp(h, dsr_host(m->marker)) != 0) {
          dsr_viol("data", "after %s: section %d index %zu: host '%s', model '%s'", after, sect, idx, h ? h : "(null)",
                   dsr_host(m->marker));
          return 0;
        }
        break;
      }
    case ARES_REC_TYPE_TXT:
      {
        unsigned char want[64];
        unsigned char all[DSR_MAXSUB * 64];
        size_t        alllen = 0, blen = 0;
        if (ares_dns_rr_get_abin_cnt(rr, ARES_RR_TXT_DATA) != (size_t)m->nsub) {
          dsr_viol("abin-count", "after %s: section %d index %zu: TXT holds %zu strings, model %d", after, sect, idx,
                   ares_dns_rr_get_abin_cnt(rr, ARES_RR_TXT_DATA), m->nsub);
          return 0;
        }
        for (k = 0; k < m->nsub; k++) {
          size_t               len = 0, wl = dsr_txt(m->sub[k], want);
          const unsigned char *p   = ares_dns_rr_get_abin(rr, ARES_RR_TXT_DATA, (size_t)k, &len);
          if (p == NULL || len != wl || memcmp(p, want, wl) != 0 || p[len] != 0) {
            dsr_viol("abin-order", "after %s: section %d index %zu: TXT string %d differs from model string number %u", after,
                     sect, idx, k, m->sub[k]);
            return 0;
          }
          memcpy(all + alllen, want, wl);
          alllen += wl;
        }
        if (ares_dns_rr_get_abin(rr, ARES_RR_TXT_DATA, (size_t)m->nsub, &blen) != NULL) {
          dsr_viol("abin-oob", "after %s: section %d index %zu: get_abin(cnt) is not NULL", after, sect, idx);
          return 0;
        }
        if (m->nsub > 0) {
          /* documented: get_bin gives all members concatenated */
          const unsigned char *p = ares_dns_rr_get_bin(rr, ARES_RR_TXT_DATA, &blen);
          if (p == NULL || blen != alllen || memcmp(p, all, alllen) != 0) {
            dsr_viol("abin-combined", "after %s: section %d index %zu: get_bin gives %zu bytes, concatenated model %zu", after,
                     sect, idx, blen, alllen);
            return 0;
          }
        }
        break;
      }
    case ARES_REC_TYPE_OPT:
    case ARES_REC_TYPE_SVCB:
    case ARES_REC_TYPE_HTTPS:
      {
        ares_dns_rr_key_t key = dsr_optkey(m->type);
        unsigned char     want[80];
        if (ares_dns_rr_get_opt_cnt(rr, key) != (size_t)m->nsub) {
          dsr_viol("opt-count", "after %s: section %d index %zu: %zu options, model %d", after, sect, idx,
                   ares_dns_rr_get_opt_cnt(rr, key), m->nsub);
          return 0;
        }
        for (k = 0; k < m->nsub; k++) {
          const unsigned char *v  = (const unsigned char *)"";
          size_t               vl = 99, wl = m->opt[k].has_val ? dsr_optval(&m->opt[k], want) : 0;
          unsigned short       id = ares_dns_rr_get_opt(rr, key, (size_t)k, &v, &vl);
          const unsigned char *v2 = NULL;
          size_t               vl2 = 99;
          if (id != m->opt[k].id || vl != wl || (wl && (v == NULL || memcmp(v, want, wl) != 0))) {
            dsr_viol("opt-order", "after %s: section %d index %zu: option %d is id %u len %zu, model id %u len %zu", after, sect,
                     idx, k, id, vl, m->opt[k].id, wl);
            return 0;
          }
          if (!ares_dns_rr_get_opt_byid(rr, key, m->opt[k].id, &v2, &vl2) || vl2 != wl || (wl && memcmp(v2, want, wl) != 0)) {
            dsr_viol("opt-byid", "after %s: section %d index %zu: get_opt_byid(%u) disagrees with the model", after, sect, idx,
                     m->opt[k].id);
            return 0;
          }
        }
        if (ares_dns_rr_get_opt(rr, key, (size_t)m->nsub, NULL, NULL) != 65535) {
          dsr_viol("opt-oob", "after %s: section %d index %zu: get_opt(cnt) is not the 65535 sentinel", after, sect, idx);
          return 0;
        }
        break;
      }
    default:
      break;
  }
  return 1;
}

static int dsr_compare(ares_dns_record_t *rec, const char *after)
{
  int sect;
  for (sect = ARES_SECTION_ANSWER; sect <= ARES_SECTION_ADDITIONAL; sect++) {
    size_t i;
    size_t cnt = ares_dns_record_rr_cnt(rec, (ares_dns_section_t)sect);
    if (cnt != dsr_cnt[sect]) {
      dsr_viol("count", "after %s: section %d has %zu records, model %zu", after, sect, cnt, dsr_cnt[sect]);
      return 0;
    }
    for (i = 0; i < cnt; i++) {
      const ares_dns_rr_t *rr = (i & 1) ? ares_dns_record_rr_get_const(rec, (ares_dns_section_t)sect, i)
                                        : ares_dns_record_rr_get(rec, (ares_dns_section_t)sect, i);
      if (rr == NULL) {
        dsr_viol("get", "after %s: rr_get(section %d, %zu) is NULL with %zu records", after, sect, i, cnt);
        return 0;
      }
      if (!dsr_compare_rr(rr, &dsr_model[sect][i], sect, i, after)) {
        return 0;
      }
    }
    if (ares_dns_record_rr_get(rec, (ares_dns_section_t)sect, cnt) != NULL) {
      dsr_viol("get-oob", "after %s: rr_get(section %d, cnt) is not NULL", after, sect);
      return 0;
    }
  }
  vh_count("record_full_compare");
  return 1;
}

/* add one record of a random type at the end of a section, fill in its marker */
static int dsr_add(ares_dns_record_t *rec, vh_rng_t *rng, int sect, const char *what)
{
  static const ares_dns_rec_type_t types[] = { ARES_REC_TYPE_A,   ARES_REC_TYPE_A,     ARES_REC_TYPE_AAAA, ARES_REC_TYPE_TXT,
                                               ARES_REC_TYPE_TXT, ARES_REC_TYPE_NS,    ARES_REC_TYPE_CNAME, ARES_REC_TYPE_PTR,
                                               ARES_REC_TYPE_OPT, ARES_REC_TYPE_SVCB, ARES_REC_TYPE_HTTPS };
  dsr_ent_t                       *m       = &dsr_model[sect][dsr_cnt[sect]];
  ares_dns_rr_t                   *rr      = NULL;
  ares_status_t                    st;

  memset(m, 0, sizeof(*m));
  m->type   = types[vh_below(rng, sizeof(types) / sizeof(types[0]))];
  m->marker = dsr_next_marker++;
  m->ttl    = (unsigned)vh_below(rng, 100000);
  st        = ares_dns_record_rr_add(&rr, rec, (ares_dns_section_t)sect, dsr_name(m->marker), m->type, ARES_CLASS_IN, m->ttl);
  if (st == ARES_ENOMEM) {
    return -1;
  }
  if (st != ARES_SUCCESS || rr == NULL) {
    dsr_viol("add-rejected", "%s: rr_add(section %d, type %d) with %zu records present returned %d", what, sect, (int)m->type,
             dsr_cnt[sect], (int)st);
    return 0;
  }
  dsr_cnt[sect]++;
  vh_count("record_rr_add");
  switch (m->type) {
    case ARES_REC_TYPE_A:
      {
        struct in_addr a;
        memcpy(&a, &m->marker, sizeof(a));
        st = ares_dns_rr_set_addr(rr, ARES_RR_A_ADDR, &a);
        break;
      }
    case ARES_REC_TYPE_AAAA:
      {
        struct ares_in6_addr a;
        memset(&a, 0x20, sizeof(a));
        memcpy((unsigned char *)&a + 4, &m->marker, sizeof(m->marker));
        st = ares_dns_rr_set_addr6(rr, ARES_RR_AAAA_ADDR, &a);
        break;
      }
    case ARES_REC_TYPE_NS:
    case ARES_REC_TYPE_CNAME:
    case ARES_REC_TYPE_PTR:
      st = ares_dns_rr_set_str(rr, dsr_hostkey(m->type), dsr_host(m->marker));
      break;
    default:
      st = ARES_SUCCESS; /* lists start empty */
      break;
  }
  if (st == ARES_ENOMEM) {
    return -1;
  }
  if (st != ARES_SUCCESS) {
    dsr_viol("set-rejected", "%s: setting the data of a new type %d record returned %d", what, (int)m->type, (int)st);
    return 0;
  }
  return 1;
}

static void dsr_model_del(int sect, size_t idx)
{
  memmove(&dsr_model[sect][idx], &dsr_model[sect][idx + 1], (dsr_cnt[sect] - idx - 1) * sizeof(dsr_ent_t));
  dsr_cnt[sect]--;
}

/* pick a record whose type satisfies pred; returns 0 if none */
static int dsr_pick(vh_rng_t *rng, int want_opt, int *sect, size_t *idx)
{
  int    s, tries;
  size_t i;
  for (tries = 0; tries < 12; tries++) {
    s = vh_range(rng, ARES_SECTION_ANSWER, ARES_SECTION_ADDITIONAL);
    if (dsr_cnt[s] == 0) {
      continue;
    }
    i = vh_below(rng, (uint32_t)dsr_cnt[s]);
    if (want_opt ? dsr_is_opt_type(dsr_model[s][i].type) : dsr_model[s][i].type == ARES_REC_TYPE_TXT) {
      *sect = s;
      *idx  = i;
      return 1;
    }
  }
  for (s = ARES_SECTION_ANSWER; s <= ARES_SECTION_ADDITIONAL; s++) {
    for (i = 0; i < dsr_cnt[s]; i++) {
      if (want_opt ? dsr_is_opt_type(dsr_model[s][i].type) : dsr_model[s][i].type == ARES_REC_TYPE_TXT) {
        *sect = s;
        *idx  = i;
        return 1;
      }
    }
  }
  return 0;
}

enum {
  DSR_ADD = 1,
  DSR_DEL,
  DSR_DEL_FIRST,
  DSR_DEL_LAST,
  DSR_DEL_BAD,
  DSR_DEL_FRONT_BURST,
  DSR_ABIN_ADD,
  DSR_ABIN_DEL,
  DSR_OPT_SET,
  DSR_OPT_DEL,
  DSR_ADD_BURST,
  DSR_DESTROY
};

static const char *const dsr_opname[] = { "?",        "rr_add",   "rr_del",  "rr_del_first",   "rr_del_last", "rr_del_bad_index",
                                          "rr_del_front_burst", "add_abin", "del_abin", "set_opt", "del_opt_byid",
                                          "rr_add_burst",       "destroy" };

static void ds_record_case(vh_rng_t *rng)
{
  ares_dns_record_t *rec  = NULL;
  int                nops = vh_chance(rng, 1, 8) ? vh_range(rng, 120, 500) : vh_range(rng, 6, 90);
  int                bias = vh_range(rng, 0, 2); /* 0 balanced, 1 queue (add at end, delete at front), 2 list-edit heavy */
  int                i;
  char               what[96];
  vh_sb_t            sb = { 0 };

  memset(dsr_cnt, 0, sizeof(dsr_cnt));
  dsr_next_marker = 1;
  dsr_site        = "init";
  if (ares_dns_record_create(&rec, (unsigned short)vh_below(rng, 65536), 0, ARES_OPCODE_QUERY, ARES_RCODE_NOERROR) !=
        ARES_SUCCESS ||
      rec == NULL) {
    vh_inconclusive("oom");
    return;
  }
  if (vh_want_sample()) {
    vh_sb_printf(&sb, "{\"container\":\"record\",\"bias\":%d,\"ops\":[", bias);
  }

  for (i = 0; i < nops && !vh_case_viol; i++) {
    int           op;
    int           r = vh_range(rng, 0, 99);
    int           sect = vh_range(rng, ARES_SECTION_ANSWER, ARES_SECTION_ADDITIONAL);
    size_t        idx  = 0;
    ares_status_t st;
    int           rc;

    if (r < 38) {
      op = DSR_ADD;
    } else if (r < 62) {
      static const int dl[] = { DSR_DEL, DSR_DEL, DSR_DEL_FIRST, DSR_DEL_LAST, DSR_DEL_BAD };
      op                    = dl[vh_below(rng, 5)];
      if (bias == 1 && vh_chance(rng, 2, 3)) {
        op = DSR_DEL_FIRST;
      }
    } else if (r < 67) {
      op = DSR_DEL_FRONT_BURST;
    } else if (r < 73) {
      op = DSR_ADD_BURST;
    } else {
      static const int ed[] = { DSR_ABIN_ADD, DSR_ABIN_ADD, DSR_ABIN_DEL, DSR_ABIN_DEL, DSR_OPT_SET,
                                DSR_OPT_SET,  DSR_OPT_SET,  DSR_OPT_DEL,  DSR_OPT_DEL };
      op                    = ed[vh_below(rng, 9)];
      if (bias != 2 && vh_chance(rng, 1, 3)) {
        op = DSR_ADD;
      }
    }
    if ((op == DSR_ADD || op == DSR_ADD_BURST) && dsr_cnt[sect] >= DSR_MAXRR - 12) {
      op = DSR_DEL_FRONT_BURST;
    }
    OP(op);
    dsr_site = dsr_opname[op];
    if (sb.b && i < 40) {
      vh_sb_printf(&sb, "%s%d", i ? "," : "", op);
    }
    snprintf(what, sizeof(what), "op#%d %s sect=%d counts=%zu/%zu/%zu", i, dsr_opname[op], sect, dsr_cnt[1], dsr_cnt[2],
             dsr_cnt[3]);

    switch (op) {
      case DSR_ADD:
      case DSR_ADD_BURST:
        {
          int n = op == DSR_ADD ? 1 : vh_range(rng, 3, 10);
          while (n-- > 0 && !vh_case_viol) {
            rc = dsr_add(rec, rng, sect, what);
            if (rc < 0) {
              vh_inconclusive("oom");
              goto teardown;
            }
          }
          break;
        }
      case DSR_DEL:
      case DSR_DEL_FIRST:
      case DSR_DEL_LAST:
        if (dsr_cnt[sect] == 0) {
          if (ares_dns_record_rr_del(rec, (ares_dns_section_t)sect, 0) == ARES_SUCCESS) {
            dsr_viol("del-bad-accepted", "%s: rr_del on an empty section succeeded", what);
          }
          break;
        }
        idx = op == DSR_DEL_FIRST ? 0 : op == DSR_DEL_LAST ? dsr_cnt[sect] - 1 : vh_below(rng, (uint32_t)dsr_cnt[sect]);
        st  = ares_dns_record_rr_del(rec, (ares_dns_section_t)sect, idx);
        if (st != ARES_SUCCESS) {
          dsr_viol("del-rejected", "%s: rr_del(section %d, %zu) with %zu records returned %d", what, sect, idx, dsr_cnt[sect],
                   (int)st);
          break;
        }
        dsr_model_del(sect, idx);
        ds_removals++;
        vh_count("record_rr_del");
        break;
      case DSR_DEL_BAD:
        idx = dsr_cnt[sect] + vh_below(rng, 4);
        if (ares_dns_record_rr_del(rec, (ares_dns_section_t)sect, idx) == ARES_SUCCESS) {
          dsr_viol("del-bad-accepted", "%s: rr_del(section %d, %zu) beyond the %zu records succeeded", what, sect, idx,
                   dsr_cnt[sect]);
        }
        break;
      case DSR_DEL_FRONT_BURST:
        {
          /* delete four or more from the front (all of them half of the time), then add straight away */
          size_t n = dsr_cnt[sect] < 4 || vh_chance(rng, 1, 3) ? dsr_cnt[sect] : 4 + vh_below(rng, (uint32_t)(dsr_cnt[sect] - 3));
          size_t k;
          for (k = 0; k < n && !vh_case_viol; k++) {
            st = ares_dns_record_rr_del(rec, (ares_dns_section_t)sect, 0);
            if (st != ARES_SUCCESS) {
              dsr_viol("del-rejected", "%s: rr_del(section %d, 0) with %zu records returned %d", what, sect, dsr_cnt[sect], (int)st);
              break;
            }
            dsr_model_del(sect, 0);
            ds_removals++;
            vh_count("record_rr_del");
          }
          if (!vh_case_viol && !dsr_compare(rec, what)) {
            break;
          }
          for (k = vh_range(rng, 1, 6); k > 0 && !vh_case_viol; k--) {
            rc = dsr_add(rec, rng, sect, what);
            if (rc < 0) {
              vh_inconclusive("oom");
              goto teardown;
            }
          }
          vh_count("record_delete_then_add");
          break;
        }
      case DSR_ABIN_ADD:
      case DSR_ABIN_DEL:
        {
          ares_dns_rr_t *rr;
          dsr_ent_t     *m;
          unsigned char  data[64];
          if (!dsr_pick(rng, 0, &sect, &idx)) {
            break;
          }
          m  = &dsr_model[sect][idx];
          rr = ares_dns_record_rr_get(rec, (ares_dns_section_t)sect, idx);
          if (rr == NULL) {
            dsr_viol("get", "%s: rr_get(section %d, %zu) is NULL", what, sect, idx);
            break;
          }
          if (op == DSR_ABIN_ADD) {
            unsigned num;
            size_t   len;
            if (m->nsub >= DSR_MAXSUB) {
              break;
            }
            num = dsr_next_marker++;
            len = dsr_txt(num, data);
            st  = ares_dns_rr_add_abin(rr, ARES_RR_TXT_DATA, data, len);
            if (st == ARES_ENOMEM) {
              break;
            }
            if (st != ARES_SUCCESS) {
              dsr_viol("abin-rejected", "%s: add_abin on a TXT with %d strings returned %d", what, m->nsub, (int)st);
              break;
            }
            m->sub[m->nsub++] = num;
            vh_count("record_abin_add");
          } else {
            size_t at = m->nsub ? vh_below(rng, (uint32_t)m->nsub + 1) : 0;
            st        = ares_dns_rr_del_abin(rr, ARES_RR_TXT_DATA, at);
            if (at >= (size_t)m->nsub) {
              if (st == ARES_SUCCESS) {
                dsr_viol("abin-bad-accepted", "%s: del_abin(%zu) on a TXT with %d strings succeeded", what, at, m->nsub);
              }
              break;
            }
            if (st != ARES_SUCCESS) {
              dsr_viol("abin-rejected", "%s: del_abin(%zu) on a TXT with %d strings returned %d", what, at, m->nsub, (int)st);
              break;
            }
            memmove(&m->sub[at], &m->sub[at + 1], ((size_t)m->nsub - at - 1) * sizeof(m->sub[0]));
            m->nsub--;
            ds_removals++;
            vh_count("record_abin_del");
          }
          break;
        }
      case DSR_OPT_SET:
      case DSR_OPT_DEL:
        {
          ares_dns_rr_t    *rr;
          dsr_ent_t        *m;
          ares_dns_rr_key_t key;
          unsigned char     data[80];
          unsigned short    id;
          int               k, at = -1;
          if (!dsr_pick(rng, 1, &sect, &idx)) {
            break;
          }
          m   = &dsr_model[sect][idx];
          key = dsr_optkey(m->type);
          rr  = ares_dns_record_rr_get(rec, (ares_dns_section_t)sect, idx);
          if (rr == NULL) {
            dsr_viol("get", "%s: rr_get(section %d, %zu) is NULL", what, sect, idx);
            break;
          }
          /* small id space so that replacing an existing option is common */
          id = (unsigned short)(m->nsub && vh_chance(rng, 1, 2) ? m->opt[vh_below(rng, (uint32_t)m->nsub)].id : vh_below(rng, 24));
          for (k = 0; k < m->nsub; k++) {
            if (m->opt[k].id == id) {
              at = k;
            }
          }
          if (op == DSR_OPT_SET) {
            dsr_opt_t o;
            if (at < 0 && m->nsub >= DSR_MAXSUB) {
              break;
            }
            o.id      = id;
            o.vid     = dsr_next_marker++;
            o.has_val = !vh_chance(rng, 1, 6);
            o.vlen    = o.has_val ? (unsigned)vh_below(rng, 60) : 0;
            dsr_optval(&o, data);
            st = ares_dns_rr_set_opt(rr, key, id, o.has_val ? data : NULL, o.vlen);
            if (st == ARES_ENOMEM) {
              break;
            }
            if (st != ARES_SUCCESS) {
              dsr_viol("opt-rejected", "%s: set_opt(id %u) on a record with %d options returned %d", what, id, m->nsub, (int)st);
              break;
            }
            if (at >= 0) {
              m->opt[at] = o; /* same id: value replaced in place */
              vh_count("record_opt_replace");
            } else {
              m->opt[m->nsub++] = o;
              vh_count("record_opt_add");
            }
          } else {
            st = ares_dns_rr_del_opt_byid(rr, key, id);
            if (at < 0) {
              /* absent id: reported as not found (or as nothing to do when the record has no option
               * list at all); either way nothing may change */
              if (st == ARES_SUCCESS && m->nsub > 0) {
                dsr_viol("opt-bad-accepted", "%s: del_opt_byid(%u) of an absent option succeeded", what, id);
              }
              break;
            }
            if (st != ARES_SUCCESS) {
              dsr_viol("opt-rejected", "%s: del_opt_byid(%u) of a present option returned %d", what, id, (int)st);
              break;
            }
            memmove(&m->opt[at], &m->opt[at + 1], ((size_t)m->nsub - (size_t)at - 1) * sizeof(m->opt[0]));
            m->nsub--;
            ds_removals++;
            vh_count("record_opt_del");
          }
          break;
        }
      default:
        break;
    }
    if (!vh_case_viol) {
      dsr_compare(rec, what);
    }
  }

teardown:
  OP(DSR_DESTROY);
  ares_dns_record_destroy(rec);
  if (sb.b) {
    vh_sb_printf(&sb, "],\"nops\":%d,\"final\":[%zu,%zu,%zu]}", ds_nops, dsr_cnt[1], dsr_cnt[2], dsr_cnt[3]);
    vh_sample(sb.b);
    free(sb.b);
  }
}
