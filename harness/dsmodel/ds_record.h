/* ds_record.h - TODO */
static void ds_record_case(vh_rng_t *rng) { (void)rng; vh_inconclusive("not-implemented"); }
