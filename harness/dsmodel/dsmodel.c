/* dsmodel.c - model-based testing of c-ares internal containers (property C19).
 *
 * One case = one seeded operation sequence against one container, compared step by
 * step with a trivial reference model.  Profiles: array, slist, llist, htable, buf,
 * record (public record API delete-then-add sequences).  See ds_*.h.
 */
#include "ares_private.h"
#include "vh.h"
#include <signal.h>
#include <sys/time.h>

#define DS_MAXOPS 4096
static uint64_t ds_trigrams; /* rolling op-kind trigram for the fingerprint */
static int      ds_removals;
static int      ds_nops;
static uint64_t ds_fp;

static void ds_op(int kind)
{
  ds_trigrams = ((ds_trigrams << 8) | (uint64_t)(kind & 0xff)) & 0xffffff;
  ds_fp       = vh_fnv_u64(ds_fp, ds_trigrams);
  ds_nops++;
}

/* fingerprints: every distinct op-kind trigram (tagged by container) is a distinct behaviour
 * class; a case is non-trivial when it ran >= 8 ops and >= 1 removal. */
static uint64_t ds_tag;
static uint64_t ds_case_trigrams[DS_MAXOPS];
static int      ds_case_ntri;
static void     ds_note_trigram(void)
{
  if (ds_nops >= 3 && ds_case_ntri < DS_MAXOPS) {
    ds_case_trigrams[ds_case_ntri++] = vh_fnv_u64(ds_tag, ds_trigrams);
  }
}

/* After a monitor has fired the container is not trusted any more: tearing it down through its own
 * API could crash or free the wrong things and bury the finding under secondary reports.  The case
 * abandons it instead and tells LeakSanitizer (when present) that these blocks are deliberate. */
void        __lsan_ignore_object(const void *p) __attribute__((weak));
static void ds_abandon(const void *p)
{
  if (p != NULL && __lsan_ignore_object) {
    __lsan_ignore_object(p);
  }
}

/* A broken link structure can turn a library loop (skip-list search, bucket scan) into an endless
 * one.  Each case gets a budget of user CPU time (not wall time, so machine load does not matter)
 * that is some thirty times what the slowest legitimate case (a large hash-table case, ~0.25 s) needs; when it runs out the case
 * is reported as hung and the worker exits so that the driver resumes after it. */
#define DS_CASE_CPU_SECONDS 8
static const char *ds_profile_name = "?";

static void ds_hang_handler(int sig)
{
  char               buf[160];
  char               num[24];
  size_t             n = 0, k = 0;
  unsigned long long v = (unsigned long long)vh_cur_case;
  const char        *a = "V ", *b = " ds:", *c = ":hang | case exceeded its CPU budget (endless loop in a container operation)\n";
  const char        *p;
  (void)sig;
  do {
    num[k++] = (char)('0' + v % 10);
    v /= 10;
  } while (v && k < sizeof(num));
  for (p = a; *p; p++) {
    buf[n++] = *p;
  }
  while (k) {
    buf[n++] = num[--k];
  }
  for (p = b; *p; p++) {
    buf[n++] = *p;
  }
  for (p = ds_profile_name; *p && n < 60; p++) {
    buf[n++] = *p;
  }
  for (p = c; *p && n < sizeof(buf); p++) {
    buf[n++] = *p;
  }
  if (write(1, buf, n) < 0) {
    _exit(4);
  }
  _exit(3);
}

static void ds_watchdog_arm(void)
{
  struct itimerval it;
  memset(&it, 0, sizeof(it));
  it.it_value.tv_sec = DS_CASE_CPU_SECONDS;
  setitimer(ITIMER_VIRTUAL, &it, NULL);
}

#define OP(kind)       \
  do {                 \
    ds_op(kind);       \
    ds_note_trigram(); \
  } while (0)

#include "ds_array.h"
#include "ds_slist.h"
#include "ds_llist.h"
#include "ds_htable.h"
#include "ds_buf.h"
#include "ds_record.h"

typedef void (*ds_case_fn)(vh_rng_t *rng);
static const struct {
  const char *name;
  ds_case_fn  fn;
} ds_profiles[] = {
  { "array",  ds_array_case  },
  { "slist",  ds_slist_case  },
  { "llist",  ds_llist_case  },
  { "htable", ds_htable_case },
  { "buf",    ds_buf_case    },
  { "record", ds_record_case },
};

int main(int argc, char **argv)
{
  vh_args_t  a;
  uint64_t   i;
  ds_case_fn fn = NULL;
  size_t     p;

  vh_parse_args(&a, argc, argv);
  for (p = 0; p < sizeof(ds_profiles) / sizeof(ds_profiles[0]); p++) {
    if (!strcmp(ds_profiles[p].name, a.profile)) {
      fn = ds_profiles[p].fn;
    }
  }
  if (fn == NULL) {
    fprintf(stderr, "unknown profile %s\n", a.profile);
    return 2;
  }
  ds_tag          = vh_fnv_str(VH_FNV_INIT, a.profile);
  ds_profile_name = a.profile;
  signal(SIGVTALRM, ds_hang_handler);
  ares_library_init(ARES_LIB_INIT_ALL);
  for (i = a.first; i < a.first + a.count; i++) {
    vh_rng_t rng;
    int      k;
    vh_rng_seed(&rng, vh_case_seed(a.seed, a.profile, i));
    vh_case_begin(i);
    ds_watchdog_arm();
    ds_trigrams  = 0;
    ds_removals  = 0;
    ds_nops      = 0;
    ds_fp        = ds_tag;
    ds_case_ntri = 0;
    fn(&rng);
    vh_count("cases");
    vh_count_n("ops", (uint64_t)ds_nops);
    if (ds_nops >= 8 && ds_removals >= 1) {
      vh_count("nontrivial_cases");
      for (k = 0; k < ds_case_ntri; k++) {
        vh_fp_add(ds_case_trigrams[k]);
      }
    }
  }
  ares_library_cleanup();
  vh_chunk_end();
  return 0;
}
