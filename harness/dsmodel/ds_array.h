/* ds_array.h - ares_array_t vs. a plain vector model.
 *
 * Element = {id, payload}; ids are unique per case so that every read identifies the insert it
 * observed.  The destructor records each id it is called for; the model knows which ids must have
 * been destructed (remove_*, destroy) and which must not (claim_at, finish).
 */

typedef struct {
  uint64_t id;
  uint32_t pay;
  uint32_t pad;
} dsa_elem_t;

#define DSA_MAX 600
static dsa_elem_t dsa_model[DSA_MAX];
static size_t     dsa_len;
static uint8_t    dsa_destructed[DS_MAXOPS + 8]; /* by id */
static uint8_t    dsa_expect_destructed[DS_MAXOPS + 8];
static uint64_t   dsa_next_id;

static void dsa_destruct(void *p)
{
  dsa_elem_t *e = (dsa_elem_t *)p;
  if (e->id < DS_MAXOPS) {
    if (dsa_destructed[e->id] < 255) {
      dsa_destructed[e->id]++;
    }
  }
}

static int dsa_cmp_pay(const void *a, const void *b)
{
  const dsa_elem_t *x = (const dsa_elem_t *)a, *y = (const dsa_elem_t *)b;
  if (x->pay != y->pay) {
    return x->pay < y->pay ? -1 : 1;
  }
  return 0;
}

static void dsa_model_insert(size_t idx, dsa_elem_t e)
{
  memmove(&dsa_model[idx + 1], &dsa_model[idx], (dsa_len - idx) * sizeof(dsa_elem_t));
  dsa_model[idx] = e;
  dsa_len++;
}

static dsa_elem_t dsa_model_remove(size_t idx)
{
  dsa_elem_t e = dsa_model[idx];
  memmove(&dsa_model[idx], &dsa_model[idx + 1], (dsa_len - idx - 1) * sizeof(dsa_elem_t));
  dsa_len--;
  return e;
}

/* full comparison of container against model */
static int dsa_compare(ares_array_t *arr, const char *after)
{
  size_t i;
  if (ares_array_len(arr) != dsa_len) {
    vh_violation("ds:array:len", "after %s: len=%zu model=%zu", after, ares_array_len(arr), dsa_len);
    return 0;
  }
  for (i = 0; i < dsa_len; i++) {
    const dsa_elem_t *e = (const dsa_elem_t *)ares_array_at_const(arr, i);
    if (e == NULL || e->id != dsa_model[i].id || e->pay != dsa_model[i].pay) {
      vh_violation("ds:array:order", "after %s: idx %zu has id=%llu model id=%llu (len %zu)", after, i,
                   e ? (unsigned long long)e->id : 0ULL, (unsigned long long)dsa_model[i].id, dsa_len);
      return 0;
    }
  }
  if (ares_array_at(arr, dsa_len) != NULL) {
    vh_violation("ds:array:at-oob", "after %s: at(len) != NULL", after);
    return 0;
  }
  if (dsa_len) {
    const dsa_elem_t *f = (const dsa_elem_t *)ares_array_first(arr);
    const dsa_elem_t *l = (const dsa_elem_t *)ares_array_last_const(arr);
    if (!f || !l || f->id != dsa_model[0].id || l->id != dsa_model[dsa_len - 1].id) {
      vh_violation("ds:array:firstlast", "after %s: first/last disagree with model", after);
      return 0;
    }
  } else if (ares_array_first(arr) != NULL || ares_array_last(arr) != NULL) {
    vh_violation("ds:array:firstlast", "after %s: first/last non-NULL on empty array", after);
    return 0;
  }
  return 1;
}

static int dsa_check_destructed(const char *after)
{
  uint64_t i;
  for (i = 0; i < dsa_next_id && i < DS_MAXOPS; i++) {
    if (dsa_destructed[i] != dsa_expect_destructed[i]) {
      vh_violation("ds:array:destructor", "after %s: id %llu destructed %u times, model %u", after,
                   (unsigned long long)i, dsa_destructed[i], dsa_expect_destructed[i]);
      return 0;
    }
  }
  return 1;
}

enum {
  DSA_INS_AT = 1,
  DSA_INS_FIRST,
  DSA_INS_LAST,
  DSA_INSD_AT,
  DSA_INSD_FIRST,
  DSA_INSD_LAST,
  DSA_RM_AT,
  DSA_RM_FIRST,
  DSA_RM_LAST,
  DSA_CLAIM_AT,
  DSA_SET_SIZE,
  DSA_SORT,
  DSA_BAD_IDX,
  DSA_DRAIN_FRONT,
  DSA_FINISH,
  DSA_DESTROY
};

static void ds_array_case(vh_rng_t *rng)
{
  ares_array_t *arr;
  int           nops   = vh_chance(rng, 1, 8) ? vh_range(rng, 200, 1500) : vh_range(rng, 4, 120);
  int           bias   = vh_range(rng, 0, 3); /* 0 balanced, 1 grow, 2 shrink-from-front, 3 churn at ends */
  int           usedes = vh_chance(rng, 3, 4);
  int           i;
  char          what[64];
  vh_sb_t       sb = { 0 };

  memset(dsa_destructed, 0, sizeof(dsa_destructed));
  memset(dsa_expect_destructed, 0, sizeof(dsa_expect_destructed));
  dsa_len     = 0;
  dsa_next_id = 0;
  arr         = ares_array_create(sizeof(dsa_elem_t), usedes ? dsa_destruct : NULL);
  if (arr == NULL) {
    vh_inconclusive("oom");
    return;
  }
  if (vh_want_sample()) {
    vh_sb_printf(&sb, "{\"container\":\"array\",\"bias\":%d,\"ops\":[", bias);
  }

  for (i = 0; i < nops && !vh_case_viol; i++) {
    int           op;
    int           r = vh_range(rng, 0, 99);
    ares_status_t st;
    dsa_elem_t    e;
    size_t        idx;
    int           ins_w = bias == 1 ? 70 : bias == 2 ? 40 : 50;

    if (r < ins_w) {
      op = vh_range(rng, DSA_INS_AT, DSA_INSD_LAST);
      if (bias == 3) {
        static const int ends[] = { DSA_INS_FIRST, DSA_INS_LAST, DSA_INSD_FIRST, DSA_INSD_LAST };
        op                      = ends[vh_below(rng, 4)];
      }
    } else if (r < 90) {
      op = vh_range(rng, DSA_RM_AT, DSA_CLAIM_AT);
      if (bias == 2 && vh_chance(rng, 2, 3)) {
        op = DSA_RM_FIRST;
      }
      if (bias == 3) {
        op = vh_chance(rng, 1, 2) ? DSA_RM_FIRST : DSA_RM_LAST;
      }
    } else if (r < 93) {
      op = DSA_SET_SIZE;
    } else if (r < 95) {
      op = DSA_SORT;
    } else if (r < 97) {
      op = DSA_BAD_IDX;
    } else {
      op = DSA_DRAIN_FRONT;
    }
    if (dsa_len >= DSA_MAX - 2 && op <= DSA_INSD_LAST) {
      op = DSA_RM_FIRST;
    }
    if (dsa_next_id >= DS_MAXOPS - 2) {
      break;
    }
    OP(op);
    if (sb.b && i < 40) {
      vh_sb_printf(&sb, "%s%d", i ? "," : "", op);
    }

    e.id  = dsa_next_id;
    e.pay = vh_below(rng, 50);
    e.pad = 0;
    snprintf(what, sizeof(what), "op#%d kind=%d len=%zu", i, op, dsa_len);

    switch (op) {
      case DSA_INS_AT:
      case DSA_INS_FIRST:
      case DSA_INS_LAST:
        {
          void *p = NULL;
          idx     = op == DSA_INS_FIRST ? 0 : op == DSA_INS_LAST ? dsa_len : vh_below(rng, (uint32_t)dsa_len + 1);
          st      = op == DSA_INS_FIRST  ? ares_array_insert_first(&p, arr)
                    : op == DSA_INS_LAST ? ares_array_insert_last(&p, arr)
                                         : ares_array_insert_at(&p, arr, idx);
          if (st == ARES_ENOMEM) {
            break;
          }
          if (st != ARES_SUCCESS || p == NULL) {
            vh_violation("ds:array:insert-rejected", "%s: insert at valid idx %zu returned %d", what, idx, (int)st);
            break;
          }
          {
            /* returned member must be zeroed */
            static const dsa_elem_t z;
            if (memcmp(p, &z, sizeof(z)) != 0) {
              vh_violation("ds:array:insert-not-zeroed", "%s", what);
            }
          }
          memcpy(p, &e, sizeof(e));
          dsa_model_insert(idx, e);
          dsa_next_id++;
          break;
        }
      case DSA_INSD_AT:
      case DSA_INSD_FIRST:
      case DSA_INSD_LAST:
        idx = op == DSA_INSD_FIRST ? 0 : op == DSA_INSD_LAST ? dsa_len : vh_below(rng, (uint32_t)dsa_len + 1);
        st  = op == DSA_INSD_FIRST  ? ares_array_insertdata_first(arr, &e)
              : op == DSA_INSD_LAST ? ares_array_insertdata_last(arr, &e)
                                    : ares_array_insertdata_at(arr, idx, &e);
        if (st == ARES_ENOMEM) {
          break;
        }
        if (st != ARES_SUCCESS) {
          vh_violation("ds:array:insert-rejected", "%s: insertdata at valid idx %zu returned %d", what, idx, (int)st);
          break;
        }
        dsa_model_insert(idx, e);
        dsa_next_id++;
        if (op == DSA_INSD_FIRST) {
          const dsa_elem_t *f = (const dsa_elem_t *)ares_array_first_const(arr);
          if (f == NULL || f->id != e.id) {
            vh_violation("ds:array:insertdata_first-not-first", "%s: element inserted with insertdata_first is not at index 0",
                         what);
          }
        }
        break;
      case DSA_RM_AT:
      case DSA_RM_FIRST:
      case DSA_RM_LAST:
        idx = op == DSA_RM_FIRST ? 0 : op == DSA_RM_LAST ? (dsa_len ? dsa_len - 1 : 0) : (dsa_len ? vh_below(rng, (uint32_t)dsa_len) : 0);
        st  = op == DSA_RM_FIRST  ? ares_array_remove_first(arr)
              : op == DSA_RM_LAST ? ares_array_remove_last(arr)
                                  : ares_array_remove_at(arr, idx);
        if (dsa_len == 0) {
          if (st == ARES_SUCCESS) {
            vh_violation("ds:array:remove-empty", "%s: remove on empty array succeeded", what);
          }
          break;
        }
        if (st != ARES_SUCCESS) {
          vh_violation("ds:array:remove-rejected", "%s: remove at valid idx %zu returned %d", what, idx, (int)st);
          break;
        }
        {
          dsa_elem_t m = dsa_model_remove(idx);
          if (usedes) {
            dsa_expect_destructed[m.id]++;
          }
          ds_removals++;
        }
        break;
      case DSA_CLAIM_AT:
        {
          dsa_elem_t got;
          int        small = vh_chance(rng, 1, 10);
          memset(&got, 0xee, sizeof(got));
          idx = dsa_len ? vh_below(rng, (uint32_t)dsa_len) : 0;
          st  = ares_array_claim_at(&got, small ? sizeof(got) - 1 : sizeof(got), arr, idx);
          if (dsa_len == 0 || small) {
            if (st == ARES_SUCCESS) {
              vh_violation("ds:array:claim-bad-accepted", "%s: claim with %s succeeded", what,
                           small ? "too-small destination" : "empty array");
            }
            break;
          }
          if (st != ARES_SUCCESS) {
            vh_violation("ds:array:remove-rejected", "%s: claim at valid idx %zu returned %d", what, idx, (int)st);
            break;
          }
          {
            dsa_elem_t m = dsa_model_remove(idx);
            if (got.id != m.id || got.pay != m.pay) {
              vh_violation("ds:array:claim-value", "%s: claimed id %llu, model %llu", what, (unsigned long long)got.id,
                           (unsigned long long)m.id);
            }
            ds_removals++;
          }
          break;
        }
      case DSA_SET_SIZE:
        {
          size_t sz = vh_below(rng, 700);
          st        = ares_array_set_size(arr, sz);
          if (st == ARES_ENOMEM) {
            break;
          }
          if (sz == 0 || sz < dsa_len) {
            if (st == ARES_SUCCESS) {
              vh_violation("ds:array:set_size-bad-accepted", "%s: set_size(%zu) with len %zu succeeded", what, sz, dsa_len);
            }
          } else if (st != ARES_SUCCESS) {
            vh_violation("ds:array:set_size-rejected", "%s: set_size(%zu) with len %zu returned %d", what, sz, dsa_len, (int)st);
          }
          break;
        }
      case DSA_SORT:
        st = ares_array_sort(arr, dsa_cmp_pay);
        if (st != ARES_SUCCESS) {
          vh_violation("ds:array:sort-rejected", "%s: sort returned %d", what, (int)st);
          break;
        }
        {
          /* model: result must be sorted by pay and be a permutation (ids multiset) */
          size_t   k;
          uint64_t xa = 0, xb = 0, sa = 0, sbm = 0;
          for (k = 0; k < dsa_len; k++) {
            const dsa_elem_t *el = (const dsa_elem_t *)ares_array_at_const(arr, k);
            if (el == NULL) {
              vh_violation("ds:array:sort-lost", "%s: at(%zu) NULL after sort", what, k);
              break;
            }
            if (k && ((const dsa_elem_t *)ares_array_at_const(arr, k - 1))->pay > el->pay) {
              vh_violation("ds:array:sort-unsorted", "%s: not sorted at %zu", what, k);
              break;
            }
            xa ^= vh_fnv_u64(VH_FNV_INIT, el->id * 64 + el->pay);
            sa += el->id;
            xb ^= vh_fnv_u64(VH_FNV_INIT, dsa_model[k].id * 64 + dsa_model[k].pay);
            sbm += dsa_model[k].id;
          }
          if (!vh_case_viol && (xa != xb || sa != sbm || ares_array_len(arr) != dsa_len)) {
            vh_violation("ds:array:sort-not-permutation", "%s", what);
          }
          /* adopt the container's order as the new model order (qsort is not stable) */
          for (k = 0; k < dsa_len && !vh_case_viol; k++) {
            dsa_model[k] = *(const dsa_elem_t *)ares_array_at_const(arr, k);
          }
        }
        break;
      case DSA_BAD_IDX:
        {
          void *p = NULL;
          idx     = dsa_len + 1 + vh_below(rng, 5);
          if (ares_array_insert_at(&p, arr, idx) == ARES_SUCCESS) {
            vh_violation("ds:array:bad-idx-accepted", "%s: insert_at(%zu) beyond end succeeded", what, idx);
          }
          if (ares_array_remove_at(arr, idx - 1) == ARES_SUCCESS) {
            vh_violation("ds:array:bad-idx-accepted", "%s: remove_at(%zu) beyond end succeeded", what, idx - 1);
          }
          if (ares_array_at(arr, idx - 1) != NULL) {
            vh_violation("ds:array:bad-idx-accepted", "%s: at(%zu) beyond end non-NULL", what, idx - 1);
          }
          break;
        }
      case DSA_DRAIN_FRONT:
        {
          /* remove everything (or nearly) from the front, then the following ops insert again */
          size_t keep = vh_chance(rng, 1, 2) ? 0 : vh_below(rng, 3);
          while (dsa_len > keep && !vh_case_viol) {
            st = ares_array_remove_first(arr);
            if (st != ARES_SUCCESS) {
              vh_violation("ds:array:remove-rejected", "%s: remove_first during drain returned %d", what, (int)st);
              break;
            }
            {
              dsa_elem_t m = dsa_model_remove(0);
              if (usedes) {
                dsa_expect_destructed[m.id]++;
              }
              ds_removals++;
            }
          }
          break;
        }
      default:
        break;
    }
    if (!vh_case_viol) {
      dsa_compare(arr, what);
    }
    if (!vh_case_viol) {
      dsa_check_destructed(what);
    }
  }

  /* teardown: finish (hands the flat memory to the caller) or destroy */
  if (vh_case_viol) {
    ares_array_destroy(arr);
  } else if (vh_chance(rng, 1, 3)) {
    size_t      n   = 12345;
    size_t      k;
    dsa_elem_t *raw = NULL;
    OP(DSA_FINISH);
    raw = (dsa_elem_t *)ares_array_finish(arr, &n);
    if (n == 12345) {
      /* finish refused: the array is still owned by us */
      vh_violation("ds:array:finish-rejected", "finish failed on a valid array (model len %zu)", dsa_len);
      ares_array_destroy(arr);
      raw = NULL;
    } else if (n != dsa_len || (dsa_len && raw == NULL)) {
      vh_violation("ds:array:finish", "finish returned %p n=%zu, model len %zu", (void *)raw, n, dsa_len);
    } else if (raw != NULL) {
      for (k = 0; k < dsa_len; k++) {
        if (raw[k].id != dsa_model[k].id) {
          vh_violation("ds:array:finish", "finish: element %zu id %llu model %llu", k, (unsigned long long)raw[k].id,
                       (unsigned long long)dsa_model[k].id);
          break;
        }
      }
    }
    ares_free(raw);
    dsa_check_destructed("finish");
  } else {
    size_t k;
    OP(DSA_DESTROY);
    for (k = 0; k < dsa_len; k++) {
      if (usedes) {
        dsa_expect_destructed[dsa_model[k].id]++;
      }
    }
    ares_array_destroy(arr);
    dsa_check_destructed("destroy");
  }
  if (sb.b) {
    vh_sb_printf(&sb, "],\"nops\":%d,\"final_len\":%zu}", ds_nops, dsa_len);
    vh_sample(sb.b);
    free(sb.b);
  }
}
