/* ds_llist.h - TODO */
static void ds_llist_case(vh_rng_t *rng) { (void)rng; vh_inconclusive("not-implemented"); }
