/* ds_llist.h - ares_llist_t (doubly linked list) vs. vectors of ids, over up to three lists.
 *
 * Value = {id}; ids are unique per case.  Every list has its own destructor state (A, B or none)
 * that can be replaced; a node is subject to the destructor of the list it is in when it dies.
 *
 * Oracle after every operation, for every list:
 *   forward walk (node_first/node_next) yields exactly the model vector, backward walk
 *   (node_last/node_prev) its reverse, len agrees, every node reports the list as its parent and is
 *   the node handle the model remembers for that id, first_val/last_val agree, node_idx(i) is the
 *   i-th node and node_idx(len) is NULL; destructors ran exactly once per destroyed/cleared/replaced
 *   value and never for claimed or moved ones.
 */

typedef struct {
  uint32_t           id;
  ares_llist_node_t *node;
  int                list; /* index of the list it is in, -1 if none */
} dsl_elem_t;

#define DSL_MAXID  (DS_MAXOPS + 8)
#define DSL_NLISTS 3
#define DSL_MAXLEN 700
static dsl_elem_t    dsl_pool[DSL_MAXID];
static uint32_t      dsl_next_id;
static uint32_t      dsl_model[DSL_NLISTS][DSL_MAXLEN + 40];
static size_t        dsl_len[DSL_NLISTS];
static int           dsl_curdes[DSL_NLISTS]; /* -1 none, 0 A, 1 B */
static ares_llist_t *dsl_lists[DSL_NLISTS];
static int           dsl_nlists;
static uint8_t       dsl_des[2][DSL_MAXID];
static uint8_t       dsl_expect[2][DSL_MAXID];

static void dsl_destruct_a(void *p)
{
  dsl_elem_t *e = (dsl_elem_t *)p;
  if (e >= dsl_pool && e < dsl_pool + DSL_MAXID && dsl_des[0][e->id] < 255) {
    dsl_des[0][e->id]++;
  }
}

static void dsl_destruct_b(void *p)
{
  dsl_elem_t *e = (dsl_elem_t *)p;
  if (e >= dsl_pool && e < dsl_pool + DSL_MAXID && dsl_des[1][e->id] < 255) {
    dsl_des[1][e->id]++;
  }
}

static ares_llist_destructor_t dsl_desfn(int d)
{
  return d < 0 ? NULL : d == 0 ? dsl_destruct_a : dsl_destruct_b;
}

static void dsl_model_insert(int l, size_t idx, uint32_t id)
{
  memmove(&dsl_model[l][idx + 1], &dsl_model[l][idx], (dsl_len[l] - idx) * sizeof(uint32_t));
  dsl_model[l][idx] = id;
  dsl_len[l]++;
  dsl_pool[id].list = l;
}

static size_t dsl_model_index(int l, uint32_t id)
{
  size_t i;
  for (i = 0; i < dsl_len[l]; i++) {
    if (dsl_model[l][i] == id) {
      return i;
    }
  }
  return (size_t)-1;
}

static void dsl_model_remove(int l, size_t idx)
{
  uint32_t id = dsl_model[l][idx];
  memmove(&dsl_model[l][idx], &dsl_model[l][idx + 1], (dsl_len[l] - idx - 1) * sizeof(uint32_t));
  dsl_len[l]--;
  dsl_pool[id].list = -1;
}

static void dsl_expect_destruct(int l, uint32_t id)
{
  if (dsl_curdes[l] >= 0) {
    dsl_expect[dsl_curdes[l]][id]++;
  }
}

static const char *dsl_site = "init"; /* name of the operation just applied (part of the violation key) */

static void dsl_viol(const char *rule, const char *fmt, ...)
{
  char    key[96];
  char    buf[1024];
  va_list ap;
  va_start(ap, fmt);
  vsnprintf(buf, sizeof(buf), fmt, ap);
  va_end(ap);
  snprintf(key, sizeof(key), "ds:llist:%s:%s", rule, dsl_site);
  vh_violation(key, "%s", buf);
}

static int dsl_compare_one(int l, const char *after)
{
  ares_llist_t      *list = dsl_lists[l];
  ares_llist_node_t *n;
  size_t             k = 0;

  if (ares_llist_len(list) != dsl_len[l]) {
    dsl_viol("len", "after %s: list %d len=%zu model=%zu", after, l, ares_llist_len(list), dsl_len[l]);
    return 0;
  }
  for (n = ares_llist_node_first(list); n != NULL; n = ares_llist_node_next(n), k++) {
    const dsl_elem_t *e = (const dsl_elem_t *)ares_llist_node_val(n);
    if (k >= dsl_len[l]) {
      dsl_viol("order", "after %s: list %d forward walk longer than model (%zu)", after, l, dsl_len[l]);
      return 0;
    }
    if (e == NULL || e < dsl_pool || e >= dsl_pool + DSL_MAXID || e->id != dsl_model[l][k]) {
      dsl_viol("order", "after %s: list %d position %zu holds id %ld, model id %u (len %zu)", after, l, k,
                   (e && e >= dsl_pool && e < dsl_pool + DSL_MAXID) ? (long)e->id : -1L, dsl_model[l][k], dsl_len[l]);
      return 0;
    }
    if (ares_llist_node_parent(n) != list) {
      dsl_viol("parent", "after %s: node of id %u in list %d reports another parent", after, e->id, l);
      return 0;
    }
    if (e->node != n) {
      dsl_viol("node-identity", "after %s: id %u reached through a node other than its handle", after, e->id);
      return 0;
    }
  }
  if (k != dsl_len[l]) {
    dsl_viol("order", "after %s: list %d forward walk ends after %zu of %zu (next id %u unreachable)", after, l,
                 k, dsl_len[l], dsl_model[l][k]);
    return 0;
  }
  k = dsl_len[l];
  for (n = ares_llist_node_last(list); n != NULL; n = ares_llist_node_prev(n)) {
    const dsl_elem_t *e = (const dsl_elem_t *)ares_llist_node_val(n);
    if (k == 0) {
      dsl_viol("backward", "after %s: list %d backward walk longer than model (%zu)", after, l, dsl_len[l]);
      return 0;
    }
    k--;
    if (e == NULL || e < dsl_pool || e >= dsl_pool + DSL_MAXID || e->id != dsl_model[l][k]) {
      dsl_viol("backward", "after %s: list %d backward walk differs from model at position %zu (model id %u)",
                   after, l, k, dsl_model[l][k]);
      return 0;
    }
  }
  if (k != 0) {
    dsl_viol("backward", "after %s: list %d backward walk from node_last stops with %zu elements unvisited",
                 after, l, k);
    return 0;
  }
  if (dsl_len[l] == 0) {
    if (ares_llist_first_val(list) != NULL || ares_llist_last_val(list) != NULL || ares_llist_node_first(list) != NULL ||
        ares_llist_node_last(list) != NULL) {
      dsl_viol("firstlast", "after %s: list %d is empty in the model but first/last are non-NULL", after, l);
      return 0;
    }
  } else {
    if (ares_llist_first_val(list) != &dsl_pool[dsl_model[l][0]] ||
        ares_llist_last_val(list) != &dsl_pool[dsl_model[l][dsl_len[l] - 1]]) {
      dsl_viol("firstlast", "after %s: list %d first_val/last_val disagree with model", after, l);
      return 0;
    }
  }
  if (ares_llist_node_idx(list, dsl_len[l]) != NULL) {
    vh_violation("ds:llist:idx-oob", "after %s: list %d node_idx(len) != NULL", after, l);
    return 0;
  }
  return 1;
}

static int dsl_compare(const char *after)
{
  int l;
  for (l = 0; l < dsl_nlists; l++) {
    if (!dsl_compare_one(l, after)) {
      return 0;
    }
  }
  if (memcmp(dsl_des, dsl_expect, sizeof(dsl_des)) != 0) {
    int      d;
    uint32_t i;
    for (d = 0; d < 2; d++) {
      for (i = 0; i < dsl_next_id; i++) {
        if (dsl_des[d][i] != dsl_expect[d][i]) {
          vh_violation("ds:llist:destructor", "after %s: id %u destructed %u times by destructor %c, model %u", after, i,
                       dsl_des[d][i], 'A' + d, dsl_expect[d][i]);
          return 0;
        }
      }
    }
  }
  return 1;
}

enum {
  DSL_INS_FIRST = 1,
  DSL_INS_LAST,
  DSL_INS_BEFORE,
  DSL_INS_AFTER,
  DSL_IDX,
  DSL_CLAIM,
  DSL_DESTROY_NODE,
  DSL_REPLACE,
  DSL_CLEAR,
  DSL_MV_FIRST,
  DSL_MV_LAST,
  DSL_REPLACE_DES,
  DSL_DRAIN,
  DSL_DESTROY
};

/* pick a random (list, index) of a live element; returns 0 if all lists are empty */
static int dsl_pick(vh_rng_t *rng, int *l, size_t *idx)
{
  size_t total = 0, r;
  int    k;
  for (k = 0; k < dsl_nlists; k++) {
    total += dsl_len[k];
  }
  if (total == 0) {
    return 0;
  }
  r = vh_below(rng, (uint32_t)total);
  for (k = 0; k < dsl_nlists; k++) {
    if (r < dsl_len[k]) {
      *l = k;
      /* favour the ends: most pointer bugs live there */
      if (vh_chance(rng, 1, 4)) {
        r = vh_chance(rng, 1, 2) ? 0 : dsl_len[k] - 1;
      }
      *idx = r;
      return 1;
    }
    r -= dsl_len[k];
  }
  return 0;
}

static void ds_llist_case(vh_rng_t *rng)
{
  int     nops = vh_chance(rng, 1, 8) ? vh_range(rng, 200, 1200) : vh_range(rng, 4, 120);
  int     bias = vh_range(rng, 0, 3); /* 0 balanced, 1 grow, 2 move-heavy, 3 queue (insert last / remove first) */
  /* three quarters of the cases anchor inserts only on the head (before) / tail (after), which is
   * the path that goes through insert_first/insert_last; the rest anchors anywhere */
  int     anchor_ends_only = vh_chance(rng, 3, 4);
  int     i, l;
  static const char *const opname[] = { "?",       "insert_first",  "insert_last",    "insert_before",
                                        "insert_after", "node_idx", "claim",          "node_destroy",
                                        "replace", "clear",         "mvparent_first", "mvparent_last",
                                        "replace_destructor",       "drain",          "destroy" };
  char    what[96];
  vh_sb_t sb = { 0 };

  memset(dsl_des, 0, sizeof(dsl_des));
  memset(dsl_expect, 0, sizeof(dsl_expect));
  dsl_next_id = 0;
  dsl_nlists  = vh_range(rng, 1, DSL_NLISTS);
  for (l = 0; l < DSL_NLISTS; l++) {
    dsl_len[l]   = 0;
    dsl_lists[l] = NULL;
  }
  for (l = 0; l < dsl_nlists; l++) {
    dsl_curdes[l] = vh_range(rng, -1, 1);
    dsl_lists[l]  = ares_llist_create(dsl_desfn(dsl_curdes[l]));
    if (dsl_lists[l] == NULL) {
      vh_inconclusive("oom");
      goto teardown;
    }
  }
  if (vh_want_sample()) {
    vh_sb_printf(&sb, "{\"container\":\"llist\",\"lists\":%d,\"bias\":%d,\"anchor_ends_only\":%d,\"ops\":[", dsl_nlists, bias,
                 anchor_ends_only);
  }

  for (i = 0; i < nops && !vh_case_viol; i++) {
    int    op;
    int    r     = vh_range(rng, 0, 99);
    int    ins_w = bias == 1 ? 60 : bias == 2 ? 30 : 42;
    size_t idx   = 0;

    if (r < ins_w) {
      op = vh_range(rng, DSL_INS_FIRST, DSL_INS_AFTER);
      if (bias == 3 && vh_chance(rng, 3, 4)) {
        op = DSL_INS_LAST;
      }
    } else if (r < ins_w + 6) {
      op = DSL_IDX;
    } else if (r < 93) {
      static const int oth[] = { DSL_CLAIM, DSL_DESTROY_NODE, DSL_REPLACE, DSL_MV_FIRST, DSL_MV_LAST };
      op                     = oth[vh_below(rng, 5)];
      if (bias == 2 && vh_chance(rng, 2, 3)) {
        op = vh_chance(rng, 1, 2) ? DSL_MV_FIRST : DSL_MV_LAST;
      }
    } else if (r < 95) {
      op = DSL_CLEAR;
    } else if (r < 97) {
      op = DSL_REPLACE_DES;
    } else {
      op = DSL_DRAIN;
    }
    if (dsl_next_id >= DS_MAXOPS - 4) {
      break;
    }
    OP(op);
    dsl_site = opname[op];
    if (sb.b && i < 40) {
      vh_sb_printf(&sb, "%s%d", i ? "," : "", op);
    }
    snprintf(what, sizeof(what), "op#%d %s lens=%zu/%zu/%zu", i, opname[op], dsl_len[0], dsl_len[1], dsl_len[2]);

    switch (op) {
      case DSL_INS_FIRST:
      case DSL_INS_LAST:
      case DSL_INS_BEFORE:
      case DSL_INS_AFTER:
        {
          dsl_elem_t *e = &dsl_pool[dsl_next_id];
          size_t      at;
          e->id   = dsl_next_id;
          e->node = NULL;
          e->list = -1;
          l       = (int)vh_below(rng, (uint32_t)dsl_nlists);
          if (op == DSL_INS_BEFORE || op == DSL_INS_AFTER) {
            if (!dsl_pick(rng, &l, &idx)) {
              /* no node to anchor on: NULL anchor must be refused */
              ares_llist_node_t *n =
                op == DSL_INS_BEFORE ? ares_llist_insert_before(NULL, e) : ares_llist_insert_after(NULL, e);
              if (n != NULL) {
                vh_violation("ds:llist:insert-null-anchor", "%s: insert relative to a NULL node returned a node", what);
              }
              break;
            }
            if (anchor_ends_only) {
              idx = op == DSL_INS_BEFORE ? 0 : dsl_len[l] - 1;
            }
            vh_count((op == DSL_INS_BEFORE ? idx == 0 : idx == dsl_len[l] - 1) ? "llist_insert_anchor_end"
                                                                              : "llist_insert_anchor_mid");
          }
          if (dsl_len[l] >= DSL_MAXLEN) {
            break;
          }
          switch (op) {
            case DSL_INS_FIRST:
              e->node = ares_llist_insert_first(dsl_lists[l], e);
              at      = 0;
              break;
            case DSL_INS_LAST:
              e->node = ares_llist_insert_last(dsl_lists[l], e);
              at      = dsl_len[l];
              break;
            case DSL_INS_BEFORE:
              e->node = ares_llist_insert_before(dsl_pool[dsl_model[l][idx]].node, e);
              at      = idx;
              break;
            default:
              e->node = ares_llist_insert_after(dsl_pool[dsl_model[l][idx]].node, e);
              at      = idx + 1;
              break;
          }
          if (e->node == NULL) {
            vh_inconclusive("oom");
            goto teardown;
          }
          if (ares_llist_node_val(e->node) != e) {
            vh_violation("ds:llist:insert-value", "%s: node returned by insert carries another value", what);
          }
          dsl_model_insert(l, at, e->id);
          dsl_next_id++;
          vh_count("llist_insert");
          break;
        }
      case DSL_IDX:
        {
          ares_llist_node_t *n;
          l   = (int)vh_below(rng, (uint32_t)dsl_nlists);
          idx = vh_below(rng, (uint32_t)dsl_len[l] + 3);
          n   = ares_llist_node_idx(dsl_lists[l], idx);
          if (idx >= dsl_len[l]) {
            if (n != NULL) {
              vh_violation("ds:llist:idx-oob", "%s: node_idx(%zu) on list of %zu is non-NULL", what, idx, dsl_len[l]);
            }
          } else if (n != dsl_pool[dsl_model[l][idx]].node) {
            vh_violation("ds:llist:idx", "%s: node_idx(%zu) on list %d is not the node of id %u", what, idx, l,
                         dsl_model[l][idx]);
          }
          vh_count("llist_idx");
          break;
        }
      case DSL_CLAIM:
      case DSL_DESTROY_NODE:
        {
          dsl_elem_t *e;
          if (!dsl_pick(rng, &l, &idx)) {
            if (ares_llist_node_claim(NULL) != NULL) {
              vh_violation("ds:llist:claim-null", "%s: claim(NULL) returned a value", what);
            }
            ares_llist_node_destroy(NULL);
            break;
          }
          e = &dsl_pool[dsl_model[l][idx]];
          if (op == DSL_CLAIM) {
            void *v = ares_llist_node_claim(e->node);
            if (v != e) {
              vh_violation("ds:llist:claim-value", "%s: claim of id %u returned another value", what, e->id);
            }
          } else {
            ares_llist_node_destroy(e->node);
            dsl_expect_destruct(l, e->id);
          }
          e->node = NULL;
          dsl_model_remove(l, idx);
          ds_removals++;
          vh_count("llist_remove");
          break;
        }
      case DSL_REPLACE:
        {
          dsl_elem_t *olde, *e;
          if (!dsl_pick(rng, &l, &idx)) {
            break;
          }
          olde    = &dsl_pool[dsl_model[l][idx]];
          e       = &dsl_pool[dsl_next_id];
          e->id   = dsl_next_id++;
          e->node = olde->node;
          e->list = l;
          ares_llist_node_replace(olde->node, e);
          dsl_expect_destruct(l, olde->id);
          olde->node        = NULL;
          olde->list        = -1;
          dsl_model[l][idx] = e->id;
          ds_removals++;
          vh_count("llist_replace");
          break;
        }
      case DSL_MV_FIRST:
      case DSL_MV_LAST:
        {
          dsl_elem_t *e;
          int         to;
          if (!dsl_pick(rng, &l, &idx)) {
            break;
          }
          to = (int)vh_below(rng, (uint32_t)dsl_nlists); /* may be the list it is already in */
          if (to != l && dsl_len[to] >= DSL_MAXLEN) {
            break;
          }
          e = &dsl_pool[dsl_model[l][idx]];
          if (op == DSL_MV_FIRST) {
            ares_llist_node_mvparent_first(e->node, dsl_lists[to]);
          } else {
            ares_llist_node_mvparent_last(e->node, dsl_lists[to]);
          }
          dsl_model_remove(l, idx);
          dsl_model_insert(to, op == DSL_MV_FIRST ? 0 : dsl_len[to], e->id);
          vh_count(to == l ? "llist_move_same" : "llist_move_other");
          break;
        }
      case DSL_CLEAR:
        {
          size_t k;
          l = (int)vh_below(rng, (uint32_t)dsl_nlists);
          ares_llist_clear(dsl_lists[l]);
          for (k = 0; k < dsl_len[l]; k++) {
            dsl_expect_destruct(l, dsl_model[l][k]);
            dsl_pool[dsl_model[l][k]].node = NULL;
            dsl_pool[dsl_model[l][k]].list = -1;
            ds_removals++;
          }
          dsl_len[l] = 0;
          vh_count("llist_clear");
          break;
        }
      case DSL_REPLACE_DES:
        l             = (int)vh_below(rng, (uint32_t)dsl_nlists);
        dsl_curdes[l] = vh_range(rng, -1, 1);
        ares_llist_replace_destructor(dsl_lists[l], dsl_desfn(dsl_curdes[l]));
        break;
      case DSL_DRAIN:
        {
          /* remove from one end until (nearly) empty; later ops insert again */
          int    front = vh_chance(rng, 1, 2);
          size_t keep  = vh_below(rng, 3);
          l            = (int)vh_below(rng, (uint32_t)dsl_nlists);
          while (dsl_len[l] > keep) {
            size_t             at = front ? 0 : dsl_len[l] - 1;
            dsl_elem_t        *e  = &dsl_pool[dsl_model[l][at]];
            ares_llist_node_t *n  = front ? ares_llist_node_first(dsl_lists[l]) : ares_llist_node_last(dsl_lists[l]);
            if (n != e->node) {
              vh_violation("ds:llist:firstlast", "%s: node_%s of list %d is not the node of id %u during drain", what,
                           front ? "first" : "last", l, e->id);
              break;
            }
            ares_llist_node_destroy(n);
            dsl_expect_destruct(l, e->id);
            e->node = NULL;
            dsl_model_remove(l, at);
            ds_removals++;
          }
          break;
        }
      default:
        break;
    }
    if (!vh_case_viol) {
      dsl_compare(what);
      vh_count("llist_full_compare");
    }
  }

teardown:
  OP(DSL_DESTROY);
  dsl_site = "destroy";
  if (vh_case_viol) {
    /* structure is suspect: abandon every node and list rather than walking them again */
    uint32_t k;
    for (k = 0; k < dsl_next_id; k++) {
      ds_abandon(dsl_pool[k].node);
    }
    for (l = 0; l < dsl_nlists; l++) {
      ds_abandon(dsl_lists[l]);
      dsl_lists[l] = NULL;
    }
  }
  for (l = 0; l < dsl_nlists; l++) {
    size_t k;
    if (dsl_lists[l] == NULL) {
      continue;
    }
    for (k = 0; k < dsl_len[l]; k++) {
      dsl_expect_destruct(l, dsl_model[l][k]);
    }
    ares_llist_destroy(dsl_lists[l]);
    dsl_lists[l] = NULL;
    dsl_len[l]   = 0;
  }
  if (!vh_case_viol && memcmp(dsl_des, dsl_expect, sizeof(dsl_des)) != 0) {
    vh_violation("ds:llist:destructor", "after destroy: destructor calls differ from model");
  }
  if (sb.b) {
    vh_sb_printf(&sb, "],\"nops\":%d}", ds_nops);
    vh_sample(sb.b);
    free(sb.b);
  }
}
