/* ds_htable.h - TODO */
static void ds_htable_case(vh_rng_t *rng) { (void)rng; vh_inconclusive("not-implemented"); }
