/* ds_htable.h - the typed hash-table fronts (szvp, strvp, asvp, dict, vpvp, vpstr) vs. an
 * association array indexed by key number.
 *
 * A case fixes one front and a universe of U distinct keys; key number i has one concrete
 * representation per front (size_t / socket / pointer: offset + i*stride; strings: prefix + hex(i) +
 * suffix).  String keys (strvp, dict) are presented in a fresh random upper/lower-case spelling at
 * every call: both fronts hash with ares_htable_hash_FNV1a_casecmp and compare with ares_strcaseeq,
 * and ares_htable_dict.h documents the key as case-insensitive, so the model's key equality for these
 * two fronts is ASCII case-insensitive equality; the other fronts compare exactly.
 * Values carry a unique id per insert (pointer into dsh_vals[] or the string "v<id>").
 *
 * Oracle: after every operation the touched key is looked up (get and get_direct) and must map to the
 * latest value inserted for it, or be absent; num_keys equals the number of live keys; every N
 * operations and at the end ALL keys of the universe are looked up; keys() (asvp, dict) returns each
 * live key exactly once; val_free (and key_free for vpvp) ran exactly once for every value (key
 * reference) that left the table through replace/remove/destroy and never for a claimed value.
 * Large cases grow one table from the initial 16 buckets past 4096 live keys, shrink it by removal
 * to a handful, and grow it again.
 */

typedef enum {
  DSH_SZVP = 0,
  DSH_STRVP,
  DSH_ASVP,
  DSH_DICT,
  DSH_VPVP,
  DSH_VPSTR,
  DSH_NFRONTS
} dsh_front_t;

static const char *const dsh_front_name[] = { "szvp", "strvp", "asvp", "dict", "vpvp", "vpstr" };

#define DSH_MAXKEYS 6400
#define DSH_MAXVALS 60000
static uint32_t dsh_vals[DSH_MAXVALS];  /* dsh_vals[i] == i; &dsh_vals[i] is the value pointer of id i */
static uint8_t  dsh_freed[DSH_MAXVALS]; /* val_free calls seen per value id */
static uint8_t  dsh_expect_freed[DSH_MAXVALS];
static uint32_t dsh_next_val;
static int      dsh_live[DSH_MAXKEYS];      /* model: key number -> present? */
static uint32_t dsh_cur[DSH_MAXKEYS];       /* model: key number -> current value id */
static uint16_t dsh_kins[DSH_MAXKEYS];      /* vpvp: successful inserts per key */
static uint16_t dsh_kfreed[DSH_MAXKEYS];    /* vpvp: key_free calls per key */
static uint32_t dsh_enum_stamp[DSH_MAXKEYS];
static uint32_t dsh_stamp;
static size_t   dsh_nlive;
static size_t   dsh_universe;
static size_t   dsh_maxlive;

static dsh_front_t dsh_front;
static void       *dsh_tab;
static int         dsh_has_valfree, dsh_has_keyfree;
static uint64_t    dsh_off, dsh_stride;
static char        dsh_prefix[48], dsh_suffix[48];
static int         dsh_empty_key0; /* strvp only: key number 0 is the empty string */
static vh_rng_t   *dsh_rng;
static int         dsh_foreign_free; /* val_free/key_free called with something never handed in */

static void dsh_val_free(void *p)
{
  uint32_t *v = (uint32_t *)p;
  if (p == NULL) {
    /* strvp_claim() detaches the value by storing NULL in the entry and then removes the entry, so
     * val_free sees NULL; no value of ours is NULL, so this releases nothing the model tracks */
    vh_count("htable_val_free_null");
    return;
  }
  if (v < dsh_vals || v >= dsh_vals + DSH_MAXVALS) {
    dsh_foreign_free++;
    return;
  }
  if (dsh_freed[*v] < 255) {
    dsh_freed[*v]++;
  }
}

static void dsh_key_free(void *p)
{
  uint64_t k = (uint64_t)(uintptr_t)p;
  uint64_t i;
  if (k < dsh_off || (k - dsh_off) % dsh_stride != 0 || (i = (k - dsh_off) / dsh_stride) >= dsh_universe) {
    dsh_foreign_free++;
    return;
  }
  if (dsh_kfreed[i] < 65535) {
    dsh_kfreed[i]++;
  }
}

/* ---- key representations ---- */
static size_t dsh_key_sz(size_t i)
{
  return (size_t)(dsh_off + (uint64_t)i * dsh_stride);
}

static ares_socket_t dsh_key_sock(size_t i)
{
  return (ares_socket_t)(dsh_off + (uint64_t)i * dsh_stride);
}

static void *dsh_key_ptr(size_t i)
{
  return (void *)(uintptr_t)(dsh_off + (uint64_t)i * dsh_stride);
}

/* string key of key number i in a random spelling */
static const char *dsh_key_str(size_t i, int canonical)
{
  static char buf[160];
  size_t      k;
  if (dsh_empty_key0 && i == 0) {
    buf[0] = 0;
    return buf;
  }
  snprintf(buf, sizeof(buf), "%s%zx%s", dsh_prefix, i, dsh_suffix);
  if (!canonical) {
    for (k = 0; buf[k]; k++) {
      if (buf[k] >= 'a' && buf[k] <= 'z' && vh_chance(dsh_rng, 1, 2)) {
        buf[k] = (char)(buf[k] - 'a' + 'A');
      }
    }
  }
  return buf;
}

/* key number of a string the table handed back, or -1 */
static long dsh_str_to_key(const char *s)
{
  size_t        pl = strlen(dsh_prefix), sl = strlen(dsh_suffix), n, k;
  char          low[160];
  char          num[160];
  char         *end = NULL;
  unsigned long v;
  if (s == NULL) {
    return -1;
  }
  n = strlen(s);
  if (n >= sizeof(low) || n <= pl + sl) {
    return -1;
  }
  for (k = 0; k < n; k++) {
    low[k] = (s[k] >= 'A' && s[k] <= 'Z') ? (char)(s[k] - 'A' + 'a') : s[k];
  }
  low[n] = 0;
  if (memcmp(low, dsh_prefix, pl) != 0 || memcmp(low + n - sl, dsh_suffix, sl) != 0) {
    return -1;
  }
  memcpy(num, low + pl, n - pl - sl);
  num[n - pl - sl] = 0;
  v                = strtoul(num, &end, 16);
  if (end == num || *end != 0 || v >= dsh_universe) {
    return -1;
  }
  /* must be exactly the canonical spelling up to case (no leading zeros, signs, ...) */
  if (strcmp(dsh_key_str((size_t)v, 1), low) != 0) {
    return -1;
  }
  return (long)v;
}

static const char *dsh_val_str(uint32_t id)
{
  static char buf[32];
  snprintf(buf, sizeof(buf), "v%u", id);
  return buf;
}

static long dsh_str_to_val(const char *s)
{
  char *end = NULL;
  long  v;
  if (s == NULL || s[0] != 'v') {
    return -1;
  }
  v = strtol(s + 1, &end, 10);
  if (end == s + 1 || *end != 0) {
    return -1;
  }
  return v;
}

static long dsh_ptr_to_val(const void *p)
{
  const uint32_t *v = (const uint32_t *)p;
  if (v < dsh_vals || v >= dsh_vals + DSH_MAXVALS) {
    return -1;
  }
  return (long)(v - dsh_vals);
}

/* ---- front dispatch ---- */
static int dsh_create(void)
{
  ares_htable_szvp_val_free_t vf = dsh_has_valfree ? dsh_val_free : NULL;
  switch (dsh_front) {
    case DSH_SZVP:
      dsh_tab = ares_htable_szvp_create(vf);
      break;
    case DSH_STRVP:
      dsh_tab = ares_htable_strvp_create(vf);
      break;
    case DSH_ASVP:
      dsh_tab = ares_htable_asvp_create(vf);
      break;
    case DSH_DICT:
      dsh_tab = ares_htable_dict_create();
      break;
    case DSH_VPVP:
      dsh_tab = ares_htable_vpvp_create(dsh_has_keyfree ? dsh_key_free : NULL, vf);
      break;
    case DSH_VPSTR:
      dsh_tab = ares_htable_vpstr_create();
      break;
    default:
      dsh_tab = NULL;
  }
  return dsh_tab != NULL;
}

static void dsh_destroy(void)
{
  switch (dsh_front) {
    case DSH_SZVP:
      ares_htable_szvp_destroy((ares_htable_szvp_t *)dsh_tab);
      break;
    case DSH_STRVP:
      ares_htable_strvp_destroy((ares_htable_strvp_t *)dsh_tab);
      break;
    case DSH_ASVP:
      ares_htable_asvp_destroy((ares_htable_asvp_t *)dsh_tab);
      break;
    case DSH_DICT:
      ares_htable_dict_destroy((ares_htable_dict_t *)dsh_tab);
      break;
    case DSH_VPVP:
      ares_htable_vpvp_destroy((ares_htable_vpvp_t *)dsh_tab);
      break;
    case DSH_VPSTR:
      ares_htable_vpstr_destroy((ares_htable_vpstr_t *)dsh_tab);
      break;
    default:
      break;
  }
  dsh_tab = NULL;
}

static ares_bool_t dsh_insert(size_t i, uint32_t vid)
{
  switch (dsh_front) {
    case DSH_SZVP:
      return ares_htable_szvp_insert((ares_htable_szvp_t *)dsh_tab, dsh_key_sz(i), &dsh_vals[vid]);
    case DSH_STRVP:
      return ares_htable_strvp_insert((ares_htable_strvp_t *)dsh_tab, dsh_key_str(i, 0), &dsh_vals[vid]);
    case DSH_ASVP:
      return ares_htable_asvp_insert((ares_htable_asvp_t *)dsh_tab, dsh_key_sock(i), &dsh_vals[vid]);
    case DSH_DICT:
      return ares_htable_dict_insert((ares_htable_dict_t *)dsh_tab, dsh_key_str(i, 0), dsh_val_str(vid));
    case DSH_VPVP:
      return ares_htable_vpvp_insert((ares_htable_vpvp_t *)dsh_tab, dsh_key_ptr(i), &dsh_vals[vid]);
    case DSH_VPSTR:
      return ares_htable_vpstr_insert((ares_htable_vpstr_t *)dsh_tab, dsh_key_ptr(i), dsh_val_str(vid));
    default:
      return ARES_FALSE;
  }
}

/* get(): returns found flag, *vid = value id or -1 (unrecognisable), *raw_null = value pointer was NULL */
static ares_bool_t dsh_get(size_t i, long *vid, int *raw_null)
{
  void       *vp = (void *)&dsh_stamp; /* poison: get() must overwrite it */
  const char *vs = (const char *)&dsh_stamp;
  ares_bool_t f;
  switch (dsh_front) {
    case DSH_SZVP:
      f = ares_htable_szvp_get((const ares_htable_szvp_t *)dsh_tab, dsh_key_sz(i), &vp);
      break;
    case DSH_STRVP:
      f = ares_htable_strvp_get((const ares_htable_strvp_t *)dsh_tab, dsh_key_str(i, 0), &vp);
      break;
    case DSH_ASVP:
      f = ares_htable_asvp_get((const ares_htable_asvp_t *)dsh_tab, dsh_key_sock(i), &vp);
      break;
    case DSH_DICT:
      f = ares_htable_dict_get((const ares_htable_dict_t *)dsh_tab, dsh_key_str(i, 0), &vs);
      *raw_null = vs == NULL;
      *vid      = dsh_str_to_val(vs);
      return f;
    case DSH_VPVP:
      f = ares_htable_vpvp_get((const ares_htable_vpvp_t *)dsh_tab, dsh_key_ptr(i), &vp);
      break;
    case DSH_VPSTR:
      f = ares_htable_vpstr_get((const ares_htable_vpstr_t *)dsh_tab, dsh_key_ptr(i), &vs);
      *raw_null = vs == NULL;
      *vid      = dsh_str_to_val(vs);
      return f;
    default:
      f = ARES_FALSE;
  }
  *raw_null = vp == NULL;
  *vid      = dsh_ptr_to_val(vp);
  return f;
}

static long dsh_get_direct(size_t i, int *raw_null)
{
  const void *vp = NULL;
  const char *vs = NULL;
  switch (dsh_front) {
    case DSH_SZVP:
      vp = ares_htable_szvp_get_direct((const ares_htable_szvp_t *)dsh_tab, dsh_key_sz(i));
      break;
    case DSH_STRVP:
      vp = ares_htable_strvp_get_direct((const ares_htable_strvp_t *)dsh_tab, dsh_key_str(i, 0));
      break;
    case DSH_ASVP:
      vp = ares_htable_asvp_get_direct((const ares_htable_asvp_t *)dsh_tab, dsh_key_sock(i));
      break;
    case DSH_DICT:
      vs        = ares_htable_dict_get_direct((const ares_htable_dict_t *)dsh_tab, dsh_key_str(i, 0));
      *raw_null = vs == NULL;
      return dsh_str_to_val(vs);
    case DSH_VPVP:
      vp = ares_htable_vpvp_get_direct((const ares_htable_vpvp_t *)dsh_tab, dsh_key_ptr(i));
      break;
    case DSH_VPSTR:
      vs        = ares_htable_vpstr_get_direct((const ares_htable_vpstr_t *)dsh_tab, dsh_key_ptr(i));
      *raw_null = vs == NULL;
      return dsh_str_to_val(vs);
    default:
      break;
  }
  *raw_null = vp == NULL;
  return dsh_ptr_to_val(vp);
}

static ares_bool_t dsh_remove(size_t i)
{
  switch (dsh_front) {
    case DSH_SZVP:
      return ares_htable_szvp_remove((ares_htable_szvp_t *)dsh_tab, dsh_key_sz(i));
    case DSH_STRVP:
      return ares_htable_strvp_remove((ares_htable_strvp_t *)dsh_tab, dsh_key_str(i, 0));
    case DSH_ASVP:
      return ares_htable_asvp_remove((ares_htable_asvp_t *)dsh_tab, dsh_key_sock(i));
    case DSH_DICT:
      return ares_htable_dict_remove((ares_htable_dict_t *)dsh_tab, dsh_key_str(i, 0));
    case DSH_VPVP:
      return ares_htable_vpvp_remove((ares_htable_vpvp_t *)dsh_tab, dsh_key_ptr(i));
    case DSH_VPSTR:
      return ares_htable_vpstr_remove((ares_htable_vpstr_t *)dsh_tab, dsh_key_ptr(i));
    default:
      return ARES_FALSE;
  }
}

static size_t dsh_num_keys(void)
{
  switch (dsh_front) {
    case DSH_SZVP:
      return ares_htable_szvp_num_keys((const ares_htable_szvp_t *)dsh_tab);
    case DSH_STRVP:
      return ares_htable_strvp_num_keys((const ares_htable_strvp_t *)dsh_tab);
    case DSH_ASVP:
      return ares_htable_asvp_num_keys((const ares_htable_asvp_t *)dsh_tab);
    case DSH_DICT:
      return ares_htable_dict_num_keys((const ares_htable_dict_t *)dsh_tab);
    case DSH_VPVP:
      return ares_htable_vpvp_num_keys((const ares_htable_vpvp_t *)dsh_tab);
    case DSH_VPSTR:
      return ares_htable_vpstr_num_keys((const ares_htable_vpstr_t *)dsh_tab);
    default:
      return 0;
  }
}

/* violation with the front as the site part of the key */
static void dsh_viol(const char *rule, const char *fmt, ...)
{
  char    key[96];
  char    buf[1024];
  va_list ap;
  va_start(ap, fmt);
  vsnprintf(buf, sizeof(buf), fmt, ap);
  va_end(ap);
  snprintf(key, sizeof(key), "ds:htable:%s:%s", rule, dsh_front_name[dsh_front]);
  vh_violation(key, "%s", buf);
}

/* look key i up both ways and compare with the model */
static int dsh_check_key(size_t i, const char *what)
{
  long        vid = -1, dvid;
  int         rn = 0, drn = 0;
  ares_bool_t f  = dsh_get(i, &vid, &rn);
  vh_count("htable_lookup");
  if (dsh_live[i]) {
    if (!f) {
      dsh_viol("lost-key", "%s: key #%zu is live (value v%u) but get() does not find it (live keys %zu)", what, i, dsh_cur[i],
               dsh_nlive);
      return 0;
    }
    if (vid != (long)dsh_cur[i]) {
      dsh_viol("stale-value", "%s: key #%zu maps to value id %ld, latest inserted is %u", what, i, vid, dsh_cur[i]);
      return 0;
    }
  } else {
    if (f) {
      dsh_viol("phantom-key", "%s: key #%zu was removed/never inserted but get() finds value id %ld", what, i, vid);
      return 0;
    }
    if (!rn) {
      dsh_viol("get-miss-output", "%s: get() of absent key #%zu did not set the output value to NULL", what, i);
      return 0;
    }
  }
  dvid = dsh_get_direct(i, &drn);
  if (dsh_live[i] ? dvid != (long)dsh_cur[i] : !drn) {
    dsh_viol("get-direct", "%s: get_direct of key #%zu gives value id %ld (null=%d), model %s v%u", what, i, dvid, drn,
             dsh_live[i] ? "live" : "absent", dsh_cur[i]);
    return 0;
  }
  return 1;
}

static int dsh_check_counts(const char *what)
{
  if (dsh_num_keys() != dsh_nlive) {
    dsh_viol("num-keys", "%s: num_keys=%zu model=%zu", what, dsh_num_keys(), dsh_nlive);
    return 0;
  }
  if (dsh_foreign_free) {
    dsh_viol("free-foreign", "%s: a free callback received a pointer that was never handed to the table", what);
    return 0;
  }
  return 1;
}

static int dsh_check_freed(const char *what)
{
  size_t i;
  if (memcmp(dsh_freed, dsh_expect_freed, dsh_next_val) != 0) {
    for (i = 0; i < dsh_next_val; i++) {
      if (dsh_freed[i] != dsh_expect_freed[i]) {
        dsh_viol("val-free", "%s: value id %zu freed %u times, model %u", what, i, dsh_freed[i], dsh_expect_freed[i]);
        return 0;
      }
    }
  }
  if (dsh_front == DSH_VPVP && dsh_has_keyfree) {
    for (i = 0; i < dsh_universe; i++) {
      unsigned want = (unsigned)dsh_kins[i] - (dsh_live[i] ? 1U : 0U);
      if (dsh_kfreed[i] != want) {
        dsh_viol("key-free", "%s: key #%zu: key_free ran %u times after %u inserts (live=%d), model %u", what, i,
                 dsh_kfreed[i], dsh_kins[i], dsh_live[i], want);
        return 0;
      }
    }
  }
  return 1;
}

/* enumerate keys (asvp, dict) and compare with the live set */
static int dsh_check_enum(const char *what)
{
  size_t num = 12345, k;
  if (dsh_front != DSH_ASVP && dsh_front != DSH_DICT) {
    return 1;
  }
  vh_count("htable_enumerate");
  dsh_stamp++;
  if (dsh_front == DSH_ASVP) {
    ares_socket_t *ks = ares_htable_asvp_keys((const ares_htable_asvp_t *)dsh_tab, &num);
    if (num != dsh_nlive || (dsh_nlive && ks == NULL)) {
      dsh_viol("keys-count", "%s: keys() returned %p with %zu entries, model has %zu live keys", what, (void *)ks, num,
               dsh_nlive);
      ares_free(ks);
      return 0;
    }
    for (k = 0; k < num; k++) {
      uint64_t v = (uint64_t)(int64_t)ks[k] - dsh_off;
      uint64_t i = v / dsh_stride;
      if ((uint64_t)(int64_t)ks[k] < dsh_off || v % dsh_stride != 0 || i >= dsh_universe || !dsh_live[i]) {
        dsh_viol("keys-foreign", "%s: keys() lists socket %ld which is not a live key", what, (long)ks[k]);
        ares_free(ks);
        return 0;
      }
      if (dsh_enum_stamp[i] == dsh_stamp) {
        dsh_viol("keys-duplicate", "%s: keys() lists key #%llu twice", what, (unsigned long long)i);
        ares_free(ks);
        return 0;
      }
      dsh_enum_stamp[i] = dsh_stamp;
    }
    ares_free(ks);
  } else {
    char **ks = ares_htable_dict_keys((const ares_htable_dict_t *)dsh_tab, &num);
    int    ok = 1;
    if (num != dsh_nlive || (dsh_nlive && ks == NULL)) {
      dsh_viol("keys-count", "%s: keys() returned %p with %zu entries, model has %zu live keys", what, (void *)ks, num,
               dsh_nlive);
      ok = 0;
    }
    for (k = 0; ok && k < num; k++) {
      long i = dsh_str_to_key(ks[k]);
      if (i < 0 || !dsh_live[i]) {
        dsh_viol("keys-foreign", "%s: keys() lists '%s' which is not a live key", what, ks[k] ? ks[k] : "(null)");
        ok = 0;
      } else if (dsh_enum_stamp[i] == dsh_stamp) {
        dsh_viol("keys-duplicate", "%s: keys() lists key #%ld twice", what, i);
        ok = 0;
      } else {
        dsh_enum_stamp[i] = dsh_stamp;
      }
    }
    if (ks != NULL) {
      ares_free_array(ks, num, ares_free);
    }
    if (!ok) {
      return 0;
    }
  }
  /* count matched and there were no duplicates or foreigners, so every live key was listed */
  return 1;
}

static int dsh_check_all(const char *what)
{
  size_t i;
  vh_count("htable_full_check");
  for (i = 0; i < dsh_universe; i++) {
    if (!dsh_check_key(i, what)) {
      return 0;
    }
  }
  return dsh_check_counts(what) && dsh_check_freed(what) && dsh_check_enum(what);
}

enum {
  DSH_INSERT_NEW = 1,
  DSH_INSERT_REPLACE,
  DSH_GET_LIVE,
  DSH_GET_ABSENT,
  DSH_REMOVE_LIVE,
  DSH_REMOVE_ABSENT,
  DSH_CLAIM,
  DSH_ENUM,
  DSH_FULL,
  DSH_DESTROY
};

/* one live / one absent key number, or -1 */
static uint32_t dsh_livelist[DSH_MAXKEYS]; /* dense list of live key numbers */
static uint32_t dsh_livepos[DSH_MAXKEYS];

static void dsh_model_set(size_t i, uint32_t vid)
{
  if (!dsh_live[i]) {
    dsh_live[i]               = 1;
    dsh_livepos[i]            = (uint32_t)dsh_nlive;
    dsh_livelist[dsh_nlive++] = (uint32_t)i;
  }
  dsh_cur[i] = vid;
  if (dsh_nlive > dsh_maxlive) {
    dsh_maxlive = dsh_nlive;
  }
}

static void dsh_model_del(size_t i)
{
  uint32_t last               = dsh_livelist[dsh_nlive - 1];
  dsh_livelist[dsh_livepos[i]] = last;
  dsh_livepos[last]            = dsh_livepos[i];
  dsh_nlive--;
  dsh_live[i] = 0;
}

static long dsh_pick_absent(vh_rng_t *rng)
{
  int tries;
  if (dsh_nlive >= dsh_universe) {
    return -1;
  }
  for (tries = 0; tries < 64; tries++) {
    size_t i = vh_below(rng, (uint32_t)dsh_universe);
    if (!dsh_live[i]) {
      return (long)i;
    }
  }
  {
    size_t i;
    for (i = 0; i < dsh_universe; i++) {
      if (!dsh_live[i]) {
        return (long)i;
      }
    }
  }
  return -1;
}

static void ds_htable_case(vh_rng_t *rng)
{
  int     large = vh_chance(rng, 1, 48);
  int     nops;
  int     phase = 0; /* large cases: 0 grow past 4096, 1 shrink to a handful, 2 grow again, 3 mixed */
  size_t  target_hi = 0, target_lo = 0, target_hi2 = 0;
  int     full_every;
  int     i;
  char    what[96];
  vh_sb_t sb = { 0 };
  size_t  k;

  dsh_rng   = rng;
  dsh_front = (dsh_front_t)vh_below(rng, DSH_NFRONTS);
  if (large) {
    dsh_universe = (size_t)vh_range(rng, 4300, DSH_MAXKEYS);
    target_hi    = (size_t)vh_range(rng, 4100, (int)dsh_universe - 100);
    target_lo    = (size_t)vh_range(rng, 0, 40);
    target_hi2   = (size_t)vh_range(rng, 50, 1200);
    nops         = 40000; /* bounded by the phases, see below */
    full_every   = 2048;
  } else {
    static const int us[] = { 3, 12, 13, 14, 24, 25, 26, 48, 49, 50, 100, 200, 400 };
    dsh_universe          = (size_t)us[vh_below(rng, sizeof(us) / sizeof(us[0]))];
    nops                  = vh_chance(rng, 1, 6) ? vh_range(rng, 300, 1500) : vh_range(rng, 6, 150);
    full_every            = dsh_universe <= 50 ? 8 : 64;
  }
  dsh_has_valfree = vh_chance(rng, 4, 5);
  dsh_has_keyfree = vh_chance(rng, 2, 3);
  /* key layout: consecutive, even, multiples of the initial / a later table size, or scattered */
  {
    static const uint64_t strides[] = { 1, 1, 2, 16, 64, 4096, 0x10001, 0x9e3779b1ULL };
    dsh_stride                      = strides[vh_below(rng, sizeof(strides) / sizeof(strides[0]))];
    dsh_off                         = 4096 + (vh_chance(rng, 1, 2) ? vh_below(rng, 100000) : 0);
    if (dsh_front == DSH_SZVP && vh_chance(rng, 1, 3)) {
      dsh_off = vh_rand64(rng) >> 1;
    }
    if (dsh_front == DSH_SZVP && vh_chance(rng, 1, 8)) {
      dsh_off = 0; /* key 0 is a legal size_t key */
    }
    if (dsh_front == DSH_ASVP && dsh_stride > 4096) {
      dsh_stride = 4096; /* keep sockets inside int */
    }
  }
  {
    static const char *const pre[] = { "", "k", "host-", "x.y.z-", "averyveryverylongprefix-with-many-letters-" };
    static const char *const suf[] = { "", "z", ".example.com", ".a.b.c.d.e.f.g.h.i.j.k.l.m.n.o.p", "-q" };
    snprintf(dsh_prefix, sizeof(dsh_prefix), "%s", pre[vh_below(rng, 5)]);
    snprintf(dsh_suffix, sizeof(dsh_suffix), "%s", suf[vh_below(rng, 5)]);
    dsh_empty_key0 = dsh_front == DSH_STRVP && vh_chance(rng, 1, 4);
  }

  memset(dsh_freed, 0, sizeof(dsh_freed));
  memset(dsh_expect_freed, 0, sizeof(dsh_expect_freed));
  memset(dsh_live, 0, sizeof(dsh_live));
  memset(dsh_kins, 0, sizeof(dsh_kins));
  memset(dsh_kfreed, 0, sizeof(dsh_kfreed));
  if (dsh_vals[DSH_MAXVALS - 1] != DSH_MAXVALS - 1) {
    for (k = 0; k < DSH_MAXVALS; k++) {
      dsh_vals[k] = (uint32_t)k;
    }
  }
  dsh_next_val     = 0;
  dsh_nlive        = 0;
  dsh_maxlive      = 0;
  dsh_foreign_free = 0;

  if (!dsh_create()) {
    vh_inconclusive("oom");
    return;
  }
  if (vh_want_sample()) {
    vh_sb_printf(&sb, "{\"container\":\"htable_%s\",\"universe\":%zu,\"large\":%d,\"stride\":%llu,\"ops\":[",
                 dsh_front_name[dsh_front], dsh_universe, large, (unsigned long long)dsh_stride);
  }

  for (i = 0; i < nops && !vh_case_viol; i++) {
    int  op;
    int  r = vh_range(rng, 0, 99);
    int  ins_w, rm_w;
    long key;

    if (large) {
      /* phase switching by size */
      if (phase == 0 && dsh_nlive >= target_hi) {
        phase = 1;
      } else if (phase == 1 && dsh_nlive <= target_lo) {
        phase = 2;
      } else if (phase == 2 && dsh_nlive >= target_hi2) {
        phase = 3;
        nops  = i + vh_range(rng, 50, 600);
      }
      ins_w = (phase == 0 || phase == 2) ? 80 : phase == 1 ? 4 : 35;
      rm_w  = (phase == 0 || phase == 2) ? 4 : phase == 1 ? 80 : 35;
    } else {
      ins_w = 40;
      rm_w  = 28;
    }
    if (r < ins_w) {
      op = (dsh_nlive && vh_chance(rng, 1, large ? 10 : 4)) ? DSH_INSERT_REPLACE : DSH_INSERT_NEW;
    } else if (r < ins_w + rm_w) {
      op = vh_chance(rng, 1, 8) ? DSH_REMOVE_ABSENT : (dsh_front == DSH_STRVP && vh_chance(rng, 1, 3)) ? DSH_CLAIM
                                                                                                       : DSH_REMOVE_LIVE;
    } else if (r < 97) {
      op = vh_chance(rng, 2, 3) ? DSH_GET_LIVE : DSH_GET_ABSENT;
    } else {
      op = (large && !vh_chance(rng, 1, 20)) ? DSH_GET_LIVE : vh_chance(rng, 1, 2) ? DSH_ENUM : DSH_FULL;
    }
    /* redirect when the wanted kind of key does not exist */
    if ((op == DSH_INSERT_REPLACE || op == DSH_GET_LIVE || op == DSH_REMOVE_LIVE || op == DSH_CLAIM) && dsh_nlive == 0) {
      op = DSH_INSERT_NEW;
    }
    if ((op == DSH_INSERT_NEW || op == DSH_GET_ABSENT || op == DSH_REMOVE_ABSENT) && dsh_nlive >= dsh_universe) {
      op = DSH_REMOVE_LIVE;
    }
    if (dsh_next_val >= DSH_MAXVALS - 2) {
      break;
    }
    OP(op);
    if (sb.b && i < 40) {
      vh_sb_printf(&sb, "%s%d", i ? "," : "", op);
    }
    key = -1;

    switch (op) {
      case DSH_INSERT_NEW:
      case DSH_INSERT_REPLACE:
        {
          uint32_t vid = dsh_next_val;
          key = op == DSH_INSERT_NEW ? dsh_pick_absent(rng) : (long)dsh_livelist[vh_below(rng, (uint32_t)dsh_nlive)];
          snprintf(what, sizeof(what), "op#%d %s key#%ld n=%zu", i, op == DSH_INSERT_NEW ? "insert" : "insert-replace", key,
                   dsh_nlive);
          if (!dsh_insert((size_t)key, vid)) {
            /* only out-of-memory may refuse a well-formed insert; treat as undecided */
            vh_inconclusive("insert-refused");
            goto teardown;
          }
          dsh_next_val++;
          if (dsh_live[key] && dsh_has_valfree && dsh_front != DSH_DICT && dsh_front != DSH_VPSTR) {
            dsh_expect_freed[dsh_cur[key]]++;
          }
          if (dsh_live[key]) {
            ds_removals++; /* the old value leaves the table */
          }
          dsh_kins[key]++;
          dsh_model_set((size_t)key, vid);
          vh_count(op == DSH_INSERT_NEW ? "htable_insert_new" : "htable_insert_replace");
          break;
        }
      case DSH_GET_LIVE:
        key = (long)dsh_livelist[vh_below(rng, (uint32_t)dsh_nlive)];
        snprintf(what, sizeof(what), "op#%d get key#%ld n=%zu", i, key, dsh_nlive);
        break;
      case DSH_GET_ABSENT:
        key = dsh_pick_absent(rng);
        snprintf(what, sizeof(what), "op#%d get-absent key#%ld n=%zu", i, key, dsh_nlive);
        break;
      case DSH_REMOVE_LIVE:
      case DSH_REMOVE_ABSENT:
        {
          ares_bool_t rv;
          key = op == DSH_REMOVE_LIVE ? (long)dsh_livelist[vh_below(rng, (uint32_t)dsh_nlive)] : dsh_pick_absent(rng);
          snprintf(what, sizeof(what), "op#%d remove%s key#%ld n=%zu", i, op == DSH_REMOVE_LIVE ? "" : "-absent", key,
                   dsh_nlive);
          rv = dsh_remove((size_t)key);
          if (op == DSH_REMOVE_LIVE) {
            if (!rv) {
              dsh_viol("remove-missed", "%s: remove() of a live key returned false", what);
              break;
            }
            if (dsh_has_valfree && dsh_front != DSH_DICT && dsh_front != DSH_VPSTR) {
              dsh_expect_freed[dsh_cur[key]]++;
            }
            dsh_model_del((size_t)key);
            ds_removals++;
            vh_count("htable_remove");
          } else if (rv) {
            dsh_viol("remove-phantom", "%s: remove() of an absent key returned true", what);
          }
          break;
        }
      case DSH_CLAIM:
        {
          void *v;
          int   absent = vh_chance(rng, 1, 6) && dsh_nlive < dsh_universe;
          key          = absent ? dsh_pick_absent(rng) : (long)dsh_livelist[vh_below(rng, (uint32_t)dsh_nlive)];
          snprintf(what, sizeof(what), "op#%d claim%s key#%ld n=%zu", i, absent ? "-absent" : "", key, dsh_nlive);
          v = ares_htable_strvp_claim((ares_htable_strvp_t *)dsh_tab, dsh_key_str((size_t)key, 0));
          if (absent) {
            if (v != NULL) {
              dsh_viol("claim-phantom", "%s: claim() of an absent key returned a value", what);
            }
            break;
          }
          if (dsh_ptr_to_val(v) != (long)dsh_cur[key]) {
            dsh_viol("claim-value", "%s: claim() returned value id %ld, model %u", what, dsh_ptr_to_val(v), dsh_cur[key]);
            break;
          }
          /* claimed: ownership back with the caller, val_free must not run */
          dsh_model_del((size_t)key);
          ds_removals++;
          vh_count("htable_claim");
          break;
        }
      case DSH_ENUM:
        snprintf(what, sizeof(what), "op#%d keys() n=%zu", i, dsh_nlive);
        dsh_check_enum(what);
        break;
      case DSH_FULL:
        snprintf(what, sizeof(what), "op#%d full-check n=%zu", i, dsh_nlive);
        dsh_check_all(what);
        break;
      default:
        break;
    }
    if (vh_case_viol) {
      break;
    }
    if (key >= 0) {
      dsh_check_key((size_t)key, what);
    }
    if (!vh_case_viol) {
      dsh_check_counts(what);
    }
    if (!vh_case_viol && (!large || (i & 63) == 0)) {
      dsh_check_freed(what);
    }
    if (!vh_case_viol && i && (i % full_every) == 0) {
      dsh_check_all(what);
    }
    /* sampling schedule only: the insert that makes 3*2^k+1 live keys is where a table that started
     * with 16 buckets and grows at 75% load doubles; look at every key right after it */
    if (!vh_case_viol && op == DSH_INSERT_NEW && dsh_nlive >= 13 && ((dsh_nlive - 1) % 3) == 0) {
      size_t q = (dsh_nlive - 1) / 3;
      if ((q & (q - 1)) == 0 && q >= 4) {
        vh_count("htable_growth_points");
        dsh_check_all(what);
      }
    }
  }

teardown:
  OP(DSH_DESTROY);
  if (!vh_case_viol) {
    dsh_check_all("final");
  }
  if (vh_case_viol) {
    /* the table is suspect; abandon it (LeakSanitizer will still see what is unreachable from it) */
    ds_abandon(dsh_tab);
    dsh_tab = NULL;
  } else {
    for (k = 0; k < dsh_nlive; k++) {
      size_t key = dsh_livelist[k];
      if (dsh_has_valfree && dsh_front != DSH_DICT && dsh_front != DSH_VPSTR) {
        dsh_expect_freed[dsh_cur[key]]++;
      }
    }
    dsh_destroy();
    for (k = 0; k < dsh_universe; k++) {
      dsh_live[k] = 0; /* every key reference has been released now */
    }
    dsh_nlive = 0;
    dsh_check_freed("destroy");
    if (dsh_foreign_free) {
      dsh_viol("free-foreign", "destroy: a free callback received a pointer that was never handed to the table");
    }
  }
  if (large) {
    vh_count("htable_large_cases");
    if (dsh_maxlive > 4096) {
      vh_count("htable_cases_past_4096_keys");
    }
  }
  if (sb.b) {
    vh_sb_printf(&sb, "],\"nops\":%d,\"max_live\":%zu}", ds_nops, dsh_maxlive);
    vh_sample(sb.b);
    free(sb.b);
  }
}
