/* et_net.h - socketpair-backed socket functions for ares_set_socket_functions_ex() and the responder
 * thread that plays the fake DNS servers.  The library gets one end of an AF_UNIX socketpair (a real
 * descriptor: epoll/poll/select work), the responder owns the other end.  No IP networking at all. */
#ifndef ET_NET_H
#define ET_NET_H

#include <sys/types.h>
#include <sys/socket.h>
#include <sys/un.h>
#include <netinet/in.h>
#include <arpa/inet.h>
#include <fcntl.h>
#include <ctype.h>
#include "ares.h"
#include "et_wrap.h"

/* ---- fake servers ---- */
#define ET_NSRV 4
static const char *const et_srv_text[ET_NSRV] = { "10.0.0.1", "10.0.0.2", "10.0.0.3", "fd00::1" };
enum { ET_B_ANSWER = 0, ET_B_DELAY, ET_B_SILENT, ET_B_SERVFAIL, ET_B_TC, ET_B_CLOSE, ET_B_N };
static const char *const et_beh_name[ET_B_N] = { "answer", "delay", "silent", "servfail", "tc", "close" };
static _Atomic int       et_srv_beh[ET_NSRV];
static _Atomic int       et_srv_delay_ms[ET_NSRV];

/* ---- counters ---- */
static _Atomic uint64_t et_n_sock_udp, et_n_sock_tcp, et_n_sock_close, et_n_sock_other;
static _Atomic uint64_t et_n_rx_udp, et_n_rx_tcp, et_n_tx_beh[ET_B_N], et_n_tx_nx, et_n_peer_closed;
static _Atomic int      et_open_lib_socks;  /* library-side descriptors currently open towards a fake server */
static _Atomic int      et_tcp_einprogress; /* aconnect answers EINPROGRESS for stream sockets */
static _Atomic int      et_allow_tfo;

/* ---- peer table ---- */
#define ET_MAX_PEERS 384
#define ET_MAX_FD    4096
typedef struct {
  int                     used;
  int                     lib_fd, peer_fd;
  int                     is_tcp, family;
  int                     srv; /* -1: not (yet) connected to a fake server */
  struct sockaddr_storage srv_addr;
  socklen_t               srv_addrlen;
  int                     lib_closed, peer_closed;
  uint64_t                gen;
  int64_t                 readable_since; /* monitor-private: first time the library's end was seen readable */
  /* responder-private */
  uint8_t inbuf[2048];
  size_t  inlen;
} et_peer_t;
static et_peer_t       et_peers[ET_MAX_PEERS];
static short           et_fd2slot[ET_MAX_FD]; /* lib fd -> slot+1 */
static pthread_mutex_t et_net_mu = PTHREAD_MUTEX_INITIALIZER;
static uint64_t        et_peer_gen;
static int             et_resp_wake[2] = { -1, -1 };

static int et_srv_index(const struct sockaddr *sa)
{
  char buf[64];
  int  i;
  buf[0] = 0;
  if (sa->sa_family == AF_INET) {
    struct sockaddr_in s4;
    memcpy(&s4, sa, sizeof(s4));
    inet_ntop(AF_INET, &s4.sin_addr, buf, sizeof(buf));
  } else if (sa->sa_family == AF_INET6) {
    struct sockaddr_in6 s6;
    memcpy(&s6, sa, sizeof(s6));
    inet_ntop(AF_INET6, &s6.sin6_addr, buf, sizeof(buf));
  }
  for (i = 0; i < ET_NSRV; i++) {
    if (strcmp(buf, et_srv_text[i]) == 0) {
      return i;
    }
  }
  return -1;
}

static et_peer_t *et_peer_by_fd_locked(int fd)
{
  int s;
  if (fd < 0 || fd >= ET_MAX_FD) {
    return NULL;
  }
  s = et_fd2slot[fd];
  if (s == 0) {
    return NULL;
  }
  return &et_peers[s - 1];
}

static void et_resp_poke(void)
{
  if (et_resp_wake[1] >= 0) {
    ssize_t r = write(et_resp_wake[1], "x", 1);
    (void)r;
  }
}

/* ---- socket functions ---- */
static ares_socket_t et_asocket(int domain, int type, int protocol, void *ud)
{
  int sv[2];
  int i, fl;
  int stype = (type == SOCK_STREAM) ? SOCK_STREAM : SOCK_DGRAM;
  (void)protocol;
  (void)ud;
  if (domain != AF_INET && domain != AF_INET6) {
    errno = EAFNOSUPPORT;
    return ARES_SOCKET_BAD;
  }
  if (socketpair(AF_UNIX, stype | SOCK_CLOEXEC, 0, sv) != 0) {
    return ARES_SOCKET_BAD;
  }
  if (sv[0] >= ET_MAX_FD) {
    close(sv[0]);
    close(sv[1]);
    errno = EMFILE;
    return ARES_SOCKET_BAD;
  }
  fl = fcntl(sv[0], F_GETFL, 0);
  fcntl(sv[0], F_SETFL, fl | O_NONBLOCK);
  fl = fcntl(sv[1], F_GETFL, 0);
  fcntl(sv[1], F_SETFL, fl | O_NONBLOCK);
  ET_LOCK(&et_net_mu);
  for (i = 0; i < ET_MAX_PEERS; i++) {
    if (!et_peers[i].used) {
      break;
    }
  }
  if (i == ET_MAX_PEERS) {
    ET_UNLOCK(&et_net_mu);
    close(sv[0]);
    close(sv[1]);
    errno = EMFILE;
    return ARES_SOCKET_BAD;
  }
  memset(&et_peers[i], 0, offsetof(et_peer_t, inbuf));
  et_peers[i].inlen   = 0;
  et_peers[i].used    = 1;
  et_peers[i].lib_fd  = sv[0];
  et_peers[i].peer_fd = sv[1];
  et_peers[i].is_tcp  = (stype == SOCK_STREAM);
  et_peers[i].family  = domain;
  et_peers[i].srv     = -1;
  et_peers[i].gen     = ++et_peer_gen;
  et_fd2slot[sv[0]]   = (short)(i + 1);
  ET_UNLOCK(&et_net_mu);
  atomic_fetch_add_explicit(stype == SOCK_STREAM ? &et_n_sock_tcp : &et_n_sock_udp, 1, ET_RELAX);
  et_resp_poke();
  return sv[0];
}

static int et_aclose(ares_socket_t fd, void *ud)
{
  et_peer_t *p;
  int        counted = 0;
  (void)ud;
  ET_LOCK(&et_net_mu);
  p = et_peer_by_fd_locked(fd);
  if (p != NULL) {
    p->lib_closed  = 1;
    counted        = p->srv >= 0;
    et_fd2slot[fd] = 0;
  }
  ET_UNLOCK(&et_net_mu);
  if (p == NULL) {
    errno = EBADF;
    return -1;
  }
  if (counted) {
    atomic_fetch_sub_explicit(&et_open_lib_socks, 1, ET_RELAX);
  }
  atomic_fetch_add_explicit(&et_n_sock_close, 1, ET_RELAX);
  close(fd);
  et_resp_poke();
  return 0;
}

static int et_asetsockopt(ares_socket_t fd, ares_socket_opt_t opt, const void *val, ares_socklen_t len, void *ud)
{
  (void)fd;
  (void)val;
  (void)len;
  (void)ud;
  if (opt == ARES_SOCKET_OPT_TCP_FASTOPEN && atomic_load_explicit(&et_allow_tfo, ET_RELAX)) {
    return 0;
  }
  errno = ENOSYS;
  return -1;
}

static int et_aconnect(ares_socket_t fd, const struct sockaddr *addr, ares_socklen_t alen, unsigned int flags,
                       void *ud)
{
  et_peer_t *p;
  int        is_tcp = 0, srv;
  (void)flags;
  (void)ud;
  srv = et_srv_index(addr);
  ET_LOCK(&et_net_mu);
  p = et_peer_by_fd_locked(fd);
  if (p != NULL) {
    if (p->srv < 0 && srv >= 0) {
      atomic_fetch_add_explicit(&et_open_lib_socks, 1, ET_RELAX);
    }
    p->srv = srv;
    if ((size_t)alen <= sizeof(p->srv_addr)) {
      memcpy(&p->srv_addr, addr, alen);
      p->srv_addrlen = alen;
    }
    is_tcp = p->is_tcp;
  }
  ET_UNLOCK(&et_net_mu);
  if (p == NULL) {
    errno = EBADF;
    return -1;
  }
  if (srv < 0) {
    atomic_fetch_add_explicit(&et_n_sock_other, 1, ET_RELAX);
  }
  if (is_tcp && atomic_load_explicit(&et_tcp_einprogress, ET_RELAX)) {
    errno = EINPROGRESS; /* the pair is connected already: the descriptor reports writable at once */
    return -1;
  }
  return 0;
}

static ares_ssize_t et_arecvfrom(ares_socket_t fd, void *buf, size_t len, int flags, struct sockaddr *from,
                                 ares_socklen_t *fromlen, void *ud)
{
  ssize_t rv;
  (void)flags;
  (void)ud;
  rv = recv(fd, buf, len, 0);
  if (rv >= 0 && from != NULL && fromlen != NULL) {
    et_peer_t *p;
    ET_LOCK(&et_net_mu);
    p = et_peer_by_fd_locked(fd);
    if (p != NULL && p->srv_addrlen > 0 && *fromlen >= p->srv_addrlen) {
      memcpy(from, &p->srv_addr, p->srv_addrlen);
      *fromlen = p->srv_addrlen;
    } else {
      *fromlen = 0;
    }
    ET_UNLOCK(&et_net_mu);
  }
  return rv;
}

static ares_ssize_t et_asendto(ares_socket_t fd, const void *buf, size_t len, int flags, const struct sockaddr *to,
                               ares_socklen_t tolen, void *ud)
{
  (void)to;
  (void)tolen;
  (void)ud;
  (void)flags;
  return send(fd, buf, len, MSG_NOSIGNAL);
}

static int et_agetsockname(ares_socket_t fd, struct sockaddr *addr, ares_socklen_t *alen, void *ud)
{
  et_peer_t *p;
  int        family = AF_INET;
  (void)ud;
  ET_LOCK(&et_net_mu);
  p = et_peer_by_fd_locked(fd);
  if (p != NULL) {
    family = p->family;
  }
  ET_UNLOCK(&et_net_mu);
  if (p == NULL) {
    errno = EBADF;
    return -1;
  }
  if (family == AF_INET6) {
    struct sockaddr_in6 s6;
    if (*alen < sizeof(s6)) {
      errno = EINVAL;
      return -1;
    }
    memset(&s6, 0, sizeof(s6));
    s6.sin6_family = AF_INET6;
    s6.sin6_port   = htons(40000);
    inet_pton(AF_INET6, "fd00::99", &s6.sin6_addr);
    memcpy(addr, &s6, sizeof(s6));
    *alen = sizeof(s6);
  } else {
    struct sockaddr_in s4;
    if (*alen < sizeof(s4)) {
      errno = EINVAL;
      return -1;
    }
    memset(&s4, 0, sizeof(s4));
    s4.sin_family = AF_INET;
    s4.sin_port   = htons(40000);
    inet_pton(AF_INET, "10.9.9.9", &s4.sin_addr);
    memcpy(addr, &s4, sizeof(s4));
    *alen = sizeof(s4);
  }
  return 0;
}

static const struct ares_socket_functions_ex et_sockfuncs = {
  1, 0, et_asocket, et_aclose, et_asetsockopt, et_aconnect, et_arecvfrom, et_asendto, et_agetsockname,
  NULL, NULL, NULL
};
static struct ares_socket_functions_ex et_sockfuncs_var;

/* ---- minimal DNS (independent of the library's codec) ---- */
typedef struct {
  int      ok;
  uint16_t id, flags, qtype, qclass;
  size_t   qend; /* offset just past the first question */
  char     first_label[64];
} et_q_t;

static void et_parse_query(const uint8_t *m, size_t len, et_q_t *q)
{
  size_t off = 12, l;
  memset(q, 0, sizeof(*q));
  if (len < 17 || (m[2] & 0x80) || ((m[4] << 8) | m[5]) < 1) {
    return;
  }
  q->id    = (uint16_t)((m[0] << 8) | m[1]);
  q->flags = (uint16_t)((m[2] << 8) | m[3]);
  l        = m[off];
  if (l > 0 && l < 64 && off + 1 + l <= len) {
    size_t k;
    for (k = 0; k < l; k++) {
      q->first_label[k] = (char)tolower(m[off + 1 + k]);
    }
  }
  while (off < len && m[off] != 0) {
    if (m[off] & 0xc0) {
      return;
    }
    off += 1 + (size_t)m[off];
  }
  if (off + 5 > len) {
    return;
  }
  off++;
  q->qtype  = (uint16_t)((m[off] << 8) | m[off + 1]);
  q->qclass = (uint16_t)((m[off + 2] << 8) | m[off + 3]);
  q->qend   = off + 4;
  q->ok     = 1;
}

/* response: header + echoed question + at most one answer RR; returns length */
static size_t et_build_reply(const uint8_t *qm, const et_q_t *q, int rcode, int tc, int with_answer, uint8_t *out,
                             size_t outcap)
{
  size_t   n = q->qend;
  uint16_t fl;
  if (n + 64 > outcap) {
    return 0;
  }
  memcpy(out, qm, n);
  fl = (uint16_t)(0x8000 | (q->flags & 0x0100) | 0x0080 | (tc ? 0x0200 : 0) | (rcode & 0xf));
  out[2]  = (uint8_t)(fl >> 8);
  out[3]  = (uint8_t)fl;
  out[4]  = 0;
  out[5]  = 1;
  out[6]  = 0;
  out[7]  = 0;
  out[8]  = 0;
  out[9]  = 0;
  out[10] = 0;
  out[11] = 0;
  if (with_answer && rcode == 0 && !tc) {
    static const uint8_t ptr_rd[] = { 3, 'p', 't', 'r', 4, 'h', 'o', 's', 't', 4, 't', 'e', 's', 't', 0 };
    static const uint8_t txt_rd[] = { 5, 'h', 'e', 'l', 'l', 'o' };
    uint8_t              rd[32];
    size_t               rdlen = 0;
    unsigned             h     = (unsigned)(q->first_label[0] * 7 + q->first_label[1] * 3 + q->id % 5);
    switch (q->qtype) {
      case 1:
        rd[0] = (h & 1) ? 10 : 192;
        rd[1] = (h & 1) ? 1 : 168;
        rd[2] = (uint8_t)(h & 3);
        rd[3] = (uint8_t)(1 + (h % 200));
        rdlen = 4;
        break;
      case 28:
        memset(rd, 0, 16);
        rd[0]  = 0xfd;
        rd[1]  = 0x00;
        rd[15] = (uint8_t)(1 + (h % 200));
        rdlen  = 16;
        break;
      case 16:
        memcpy(rd, txt_rd, sizeof(txt_rd));
        rdlen = sizeof(txt_rd);
        break;
      case 12:
        memcpy(rd, ptr_rd, sizeof(ptr_rd));
        rdlen = sizeof(ptr_rd);
        break;
      default:
        break;
    }
    if (rdlen) {
      out[n++] = 0xc0;
      out[n++] = 0x0c;
      out[n++] = (uint8_t)(q->qtype >> 8);
      out[n++] = (uint8_t)q->qtype;
      out[n++] = 0;
      out[n++] = 1;
      out[n++] = 0;
      out[n++] = 0;
      out[n++] = 0;
      out[n++] = 60;
      out[n++] = 0;
      out[n++] = (uint8_t)rdlen;
      memcpy(out + n, rd, rdlen);
      n      += rdlen;
      out[7]  = 1;
    }
  }
  return n;
}

/* ---- responder ---- */
#define ET_MAX_PENDING 512
typedef struct {
  int      used;
  int      slot;
  uint64_t gen;
  int64_t  due_ns;
  size_t   len; /* includes the 2-octet prefix for stream peers */
  uint8_t  msg[600];
} et_pending_t;
static et_pending_t et_pending[ET_MAX_PENDING];
#define ET_PB_MAXTX 8
static _Atomic int     et_bk_ntx, et_pb_ntx;
static _Atomic int64_t et_pb_tx_ns[ET_PB_MAXTX];
static _Atomic int  et_resp_stop;
static _Atomic uint64_t et_n_pending_dropped;

static void et_resp_send(int slot, uint64_t gen, const uint8_t *msg, size_t len)
{
  int fd = -1;
  ET_LOCK(&et_net_mu);
  if (et_peers[slot].used && et_peers[slot].gen == gen && !et_peers[slot].peer_closed) {
    fd = et_peers[slot].peer_fd;
  }
  ET_UNLOCK(&et_net_mu);
  if (fd >= 0) {
    ssize_t r = send(fd, msg, len, MSG_NOSIGNAL | MSG_DONTWAIT);
    (void)r;
  }
}

static void et_resp_close_peer(int slot)
{
  int fd = -1;
  ET_LOCK(&et_net_mu);
  if (et_peers[slot].used && !et_peers[slot].peer_closed) {
    et_peers[slot].peer_closed = 1;
    fd                         = et_peers[slot].peer_fd;
  }
  ET_UNLOCK(&et_net_mu);
  if (fd >= 0) {
    close(fd);
    atomic_fetch_add_explicit(&et_n_peer_closed, 1, ET_RELAX);
  }
}

static void et_resp_query(int slot, uint64_t gen, int srv, int is_tcp, const uint8_t *m, size_t len)
{
  et_q_t  q;
  uint8_t out[600];
  size_t  n, off = is_tcp ? 2 : 0;
  int     beh, delay_ms = 0, rcode = 0, tc = 0;
  et_parse_query(m, len, &q);
  if (!q.ok || srv < 0) {
    return;
  }
  beh = atomic_load_explicit(&et_srv_beh[srv], ET_RELAX);
  /* transmission log of the two names of the backed-off-busy scenario (timers profile) */
  if (strcmp(q.first_label, "silbk") == 0) {
    atomic_fetch_add(&et_bk_ntx, 1);
  } else if (strcmp(q.first_label, "silpb") == 0) {
    int k = atomic_fetch_add(&et_pb_ntx, 1);
    if (k < ET_PB_MAXTX) {
      atomic_store(&et_pb_tx_ns[k], et_now_ns());
    }
  }
  /* per-name overrides (first label) */
  if (strncmp(q.first_label, "sil", 3) == 0) {
    beh = ET_B_SILENT;
  } else if (strncmp(q.first_label, "dly", 3) == 0) {
    beh      = ET_B_DELAY;
    delay_ms = 40;
  } else if (strncmp(q.first_label, "ok", 2) == 0) {
    beh = ET_B_ANSWER;
  }
  if (beh == ET_B_TC && is_tcp) {
    beh = ET_B_ANSWER;
  }
  atomic_fetch_add_explicit(&et_n_tx_beh[beh], 1, ET_RELAX);
  switch (beh) {
    case ET_B_SILENT:
      return;
    case ET_B_CLOSE:
      et_resp_close_peer(slot);
      return;
    case ET_B_SERVFAIL:
      rcode = 2;
      break;
    case ET_B_TC:
      tc = 1;
      break;
    case ET_B_DELAY:
      if (!delay_ms) {
        delay_ms = atomic_load_explicit(&et_srv_delay_ms[srv], ET_RELAX);
      }
      break;
    default:
      break;
  }
  if (rcode == 0 && strncmp(q.first_label, "nx", 2) == 0) {
    rcode = 3;
    atomic_fetch_add_explicit(&et_n_tx_nx, 1, ET_RELAX);
  }
  n = et_build_reply(m, &q, rcode, tc, 1, out + off, sizeof(out) - off);
  if (n == 0) {
    return;
  }
  if (is_tcp) {
    out[0] = (uint8_t)(n >> 8);
    out[1] = (uint8_t)n;
    n     += 2;
  }
  if (delay_ms > 0) {
    int i;
    for (i = 0; i < ET_MAX_PENDING; i++) {
      if (!et_pending[i].used) {
        et_pending[i].used   = 1;
        et_pending[i].slot   = slot;
        et_pending[i].gen    = gen;
        et_pending[i].due_ns = et_now_ns() + (int64_t)delay_ms * 1000000;
        et_pending[i].len    = n;
        memcpy(et_pending[i].msg, out, n);
        return;
      }
    }
    atomic_fetch_add_explicit(&et_n_pending_dropped, 1, ET_RELAX);
    return;
  }
  et_resp_send(slot, gen, out, n);
}

static void *et_responder(void *arg)
{
  static struct pollfd pfds[ET_MAX_PEERS + 1];
  static int           pslot[ET_MAX_PEERS + 1];
  static uint64_t      pgen[ET_MAX_PEERS + 1];
  static int           psrv[ET_MAX_PEERS + 1], ptcp[ET_MAX_PEERS + 1];
  (void)arg;
  et_role = ET_ROLE_RESP;
  while (!atomic_load_explicit(&et_resp_stop, memory_order_acquire)) {
    int     n = 0, i, rv, timeout = 50;
    int64_t now;
    int     toclose[ET_MAX_PEERS], nclose = 0;
    pfds[n].fd     = et_resp_wake[0];
    pfds[n].events = POLLIN;
    n++;
    ET_LOCK(&et_net_mu);
    for (i = 0; i < ET_MAX_PEERS; i++) {
      et_peer_t *p = &et_peers[i];
      if (!p->used) {
        continue;
      }
      if (p->lib_closed) {
        if (!p->peer_closed) {
          toclose[nclose++] = p->peer_fd;
        }
        p->used = 0;
        continue;
      }
      if (p->peer_closed) {
        continue;
      }
      pfds[n].fd      = p->peer_fd;
      pfds[n].events  = POLLIN;
      pfds[n].revents = 0;
      pslot[n]        = i;
      pgen[n]         = p->gen;
      psrv[n]         = p->srv;
      ptcp[n]         = p->is_tcp;
      n++;
    }
    ET_UNLOCK(&et_net_mu);
    for (i = 0; i < nclose; i++) {
      close(toclose[i]);
    }
    now = et_now_ns();
    for (i = 0; i < ET_MAX_PENDING; i++) {
      if (et_pending[i].used) {
        int64_t d = (et_pending[i].due_ns - now) / 1000000;
        if (d < 0) {
          d = 0;
        }
        if (d < timeout) {
          timeout = (int)d;
        }
      }
    }
    rv = __real_poll(pfds, (nfds_t)n, timeout);
    if (rv > 0 && (pfds[0].revents & POLLIN)) {
      char    junk[64];
      ssize_t r = read(et_resp_wake[0], junk, sizeof(junk));
      (void)r;
    }
    for (i = 1; rv > 0 && i < n; i++) {
      et_peer_t *p = &et_peers[pslot[i]];
      if (!(pfds[i].revents & (POLLIN | POLLHUP | POLLERR))) {
        continue;
      }
      if (!ptcp[i]) {
        int k;
        for (k = 0; k < 16; k++) {
          uint8_t buf[1500];
          ssize_t r = recv(pfds[i].fd, buf, sizeof(buf), MSG_DONTWAIT);
          if (r <= 0) {
            break;
          }
          atomic_fetch_add_explicit(&et_n_rx_udp, 1, ET_RELAX);
          /* srv may have been recorded after the snapshot: re-read */
          if (psrv[i] < 0) {
            ET_LOCK(&et_net_mu);
            psrv[i] = p->srv;
            ET_UNLOCK(&et_net_mu);
          }
          et_resp_query(pslot[i], pgen[i], psrv[i], 0, buf, (size_t)r);
          ET_LOCK(&et_net_mu);
          k = p->peer_closed ? 16 : k;
          ET_UNLOCK(&et_net_mu);
        }
      } else {
        ssize_t r = recv(pfds[i].fd, p->inbuf + p->inlen, sizeof(p->inbuf) - p->inlen, MSG_DONTWAIT);
        if (r == 0 || (r < 0 && errno != EAGAIN && errno != EWOULDBLOCK && errno != EINTR)) {
          et_resp_close_peer(pslot[i]); /* library side went away or reset */
          continue;
        }
        if (r < 0) {
          continue;
        }
        p->inlen += (size_t)r;
        if (psrv[i] < 0) {
          ET_LOCK(&et_net_mu);
          psrv[i] = p->srv;
          ET_UNLOCK(&et_net_mu);
        }
        for (;;) {
          size_t ml;
          int    closed;
          if (p->inlen < 2) {
            break;
          }
          ml = (size_t)((p->inbuf[0] << 8) | p->inbuf[1]);
          if (ml + 2 > sizeof(p->inbuf)) {
            et_resp_close_peer(pslot[i]);
            break;
          }
          if (p->inlen < ml + 2) {
            break;
          }
          atomic_fetch_add_explicit(&et_n_rx_tcp, 1, ET_RELAX);
          et_resp_query(pslot[i], pgen[i], psrv[i], 1, p->inbuf + 2, ml);
          memmove(p->inbuf, p->inbuf + ml + 2, p->inlen - ml - 2);
          p->inlen -= ml + 2;
          ET_LOCK(&et_net_mu);
          closed = p->peer_closed;
          ET_UNLOCK(&et_net_mu);
          if (closed) {
            break;
          }
        }
      }
    }
    now = et_now_ns();
    for (i = 0; i < ET_MAX_PENDING; i++) {
      if (et_pending[i].used && et_pending[i].due_ns <= now) {
        et_resp_send(et_pending[i].slot, et_pending[i].gen, et_pending[i].msg, et_pending[i].len);
        et_pending[i].used = 0;
      }
    }
  }
  return NULL;
}

/* close whatever is left (after the channel is gone) and reset the tables for the next case */
static int et_net_reset(void)
{
  int i, leaked = 0;
  ET_LOCK(&et_net_mu);
  for (i = 0; i < ET_MAX_PEERS; i++) {
    if (et_peers[i].used) {
      if (!et_peers[i].lib_closed) {
        leaked++; /* the library never closed this descriptor */
        close(et_peers[i].lib_fd);
      }
      if (!et_peers[i].peer_closed) {
        close(et_peers[i].peer_fd);
      }
      et_peers[i].used = 0;
    }
  }
  memset(et_fd2slot, 0, sizeof(et_fd2slot));
  ET_UNLOCK(&et_net_mu);
  memset(et_pending, 0, sizeof(et_pending));
  return leaked;
}

#endif
