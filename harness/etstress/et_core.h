/* et_core.h - request table, callbacks, client operations and the monitors of the etstress engine. */
#ifndef ET_CORE_H
#define ET_CORE_H

#include <netdb.h>
#include <signal.h>
#include <sys/stat.h>
#include <sys/wait.h>
#include <sys/prctl.h>
#include "vh.h"
#include "et_net.h"

/* ---------- case configuration (pure function of seed, profile, idx) ---------- */
enum { ET_P_STRESS = 0, ET_P_TIMERS = 1 };
enum { ET_CONN_FRESH = 0, ET_CONN_IDLE, ET_CONN_BUSY };
static const char *const et_conn_name[3] = { "fresh-conn", "idle-kept-open-conn", "busy-conn" };
enum { ET_SIT_ANSWER = 0, ET_SIT_SILENT, ET_SIT_CLOSE };
static const char *const et_sit_name[3] = { "answer", "silent", "close" };

typedef struct {
  int profile;
  int backend; /* 0 default(epoll) 1 epoll 2 poll 3 select */
  int nclients, nops;
  int stayopen, usevc, igntc, rotate, tfo, einprogress, nbflag;
  int udp_max_queries;
  int tries, timeout_ms, maxtimeout_ms, nsrv, nsrv_max;
  int qcache;
  int lookups; /* 0 "b" 1 "bf" 2 "fb" */
  int servers_from_resolvconf;
  int inj_density;
  int destroy_outstanding;
  int reload_vs_destroy; /* rewrite resolv.conf right before ares_destroy() */
  int sortlist_one_size;
  int reinit_mode; /* 0 none 1 one client 2 all clients 3 config-change only (event thread) 4 all + config-change */
  int beh[ET_NSRV];
  int delay_ms[ET_NSRV];
  int slow_cb_us;
  int quiesce;
  int weights[32];
  /* timers profile */
  int conn_sit, srv_sit, offset_us, burst, second_client, idle_after_timeout;
  int backoff; /* busy connection whose outstanding query is in a backed-off attempt (deadline far away) */
  int busy_traffic; /* answered requests re-issued from their callbacks keep the event thread busy without a pause while one request gets no answer */
  int signals;      /* a periodic signal with a (restarting) handler lands in the library's threads: waits come back with EINTR */
  int long_timeout; /* one silent query with a per-try timeout above one second (seconds part of the back end's sleep) */
} et_cfg_t;
static et_cfg_t et_cfg;

/* budget of one low-level query: every try is capped by maxtimeout (ARES_OPT_MAXTIMEOUTMS is always set, and
 * the library never lets a single try wait longer than that); a query is tried at most tries*nservers times;
 * two more rounds are granted for the TCP retry after a truncated answer and for a requeue after a server-list
 * change.  nservers (nsrv_max) is the largest list the case ever configures: 3 in `stress` (server-change
 * operations and resolv.conf variants name at most 3 servers), 2 in `timers`.
 *   deadline(request) = issue time + 4 * budget * nseq + 3 s,   nseq = 3 for search-list walkers (as-is name +
 *   2 search domains, looked up one after the other), else 1. */
static int et_query_budget_ms(void)
{
  return (et_cfg.tries * et_cfg.nsrv_max + 2) * et_cfg.maxtimeout_ms;
}

/* ---------- operation kinds ---------- */
enum {
  K_SEND = 0, K_QUERY, K_SEARCH, K_GAI, K_GHBN, K_GHBA, K_GNI, /* requests */
  K_CANCEL, K_SETSRV_PORTS, K_SETSRV, K_SORTLIST, K_REINIT, K_WAIT_FIN, K_WAIT_INF, K_ACTIVE, K_GETSRV, K_SAVEOPT,
  K_TIMEOUT, K_DUP, K_CONFCHG,
  K_NCHAN, /* kinds below do not touch the channel */
  K_BEHCHG = K_NCHAN, K_PAUSE, K_N
};
static const char *const et_kind_name[K_N] = {
  "send_dnsrec", "query_dnsrec", "search_dnsrec", "getaddrinfo", "gethostbyname", "gethostbyaddr", "getnameinfo",
  "cancel", "set_servers_ports_csv", "set_servers_csv", "set_sortlist", "reinit", "wait_empty_finite",
  "wait_empty_inf", "active_queries", "get_servers_csv", "save_options", "timeout", "dup_destroy", "config_change",
  "behaviour_change", "pause"
};
#define K_NREQ 7

/* ---------- shared state ---------- */
static ares_channel_t  *et_channel;
static uint64_t         et_case_seed;
static _Atomic uint64_t et_S; /* global sequence counter */
static _Atomic int      et_destroyed; /* ares_destroy() of the channel under test has returned */
static _Atomic int      et_closing;   /* no new requests from callbacks any more */
static _Atomic int      et_outstanding;
static int64_t          et_case_t0;

static inline uint64_t et_seq(void)
{
  return atomic_fetch_add(&et_S, 1) + 1;
}

#define ET_MAX_REQ 8192
typedef struct {
  _Atomic int      kind;
  _Atomic int      issuer; /* client id, or -1 when issued from a callback */
  _Atomic int      on_dup; /* issued on a short-lived duplicate channel: only exactly-once applies */
  _Atomic int      cb_count, cb_status, cb_late, cb_on_lib_thread;
  _Atomic uint64_t s_start, s_ret, s_cb;
  _Atomic int64_t  t_issue, t_ret, t_cb, deadline;
  _Atomic int      conn_sit, srv_sit;
  int              chain_kind, cb_sleep_us;
} et_req_t;
static et_req_t    et_reqs[ET_MAX_REQ];
static _Atomic int et_nreq;
static _Atomic int et_req_overflow;

#define ET_MAX_WAITS 2048
typedef struct {
  _Atomic uint64_t t1, t2;
  _Atomic int      status, timeout_ms, quiesced, active_after;
} et_waitrec_t;
static et_waitrec_t et_waits[ET_MAX_WAITS];
static _Atomic int  et_nwaits;

#define ET_STATUS_MAX 32
static _Atomic uint64_t et_cb_by_status[ET_STATUS_MAX];
static _Atomic uint64_t et_cb_total, et_cb_on_lib, et_cb_chained, et_cb_late_total, et_cb_cancel_then_chain;
static _Atomic int      et_perpetual_stop; /* busy-traffic scenario: stop re-issuing */
static _Atomic uint64_t et_perpetual_issued;

typedef struct {
  int      kind;
  int      qtype;
  int      family;
  int      chain_kind;
  int      cb_sleep_us;
  int      flags;
  int      bad; /* arguments the library refuses: the error exits of the entry points */
  char     name[80];
} et_reqspec_t;

/* ---------- callbacks ---------- */
static int et_issue(const et_reqspec_t *sp, int issuer, ares_channel_t *chan, int on_dup);
static void et_make_spec(vh_rng_t *g, int kind, et_reqspec_t *sp, int allow_chain);

static void et_cb_common(et_req_t *r, int status)
{
  int n = atomic_fetch_add(&r->cb_count, 1);
  if (n == 0) {
    atomic_store(&r->cb_status, status);
    atomic_store(&r->t_cb, et_now_ns());
    atomic_store(&r->s_cb, et_seq());
    atomic_store(&r->cb_on_lib_thread, et_role == ET_ROLE_LIB);
    atomic_fetch_sub(&et_outstanding, 1);
  }
  if (atomic_load(&et_destroyed) && !atomic_load(&r->on_dup)) {
    atomic_fetch_add(&r->cb_late, 1);
    atomic_fetch_add_explicit(&et_cb_late_total, 1, ET_RELAX);
  }
  atomic_fetch_add_explicit(&et_cb_total, 1, ET_RELAX);
  if (et_role == ET_ROLE_LIB) {
    atomic_fetch_add_explicit(&et_cb_on_lib, 1, ET_RELAX);
  }
  if (status >= 0 && status < ET_STATUS_MAX) {
    atomic_fetch_add_explicit(&et_cb_by_status[status], 1, ET_RELAX);
  }
  atomic_fetch_add_explicit(&et_progress, 1, ET_RELAX);
  if (n != 0) {
    return;
  }
  if (r->cb_sleep_us > 0) {
    et_sleep_us(r->cb_sleep_us);
  }
  if (r->chain_kind >= 0 && status != ARES_EDESTRUCTION && !atomic_load(&et_closing) &&
      !atomic_load(&r->on_dup)) {
    vh_rng_t     g;
    et_reqspec_t sp;
    vh_rng_seed(&g, et_case_seed ^ ((uint64_t)(r - et_reqs) * 0x9e3779b97f4a7c15ULL) ^ 0xc4a1);
    et_make_spec(&g, r->chain_kind, &sp, 0);
    if (status != ARES_ECANCELLED && vh_chance(&g, 1, 4)) {
      /* cancel everything, then carry on with the next request, all from inside the callback: the queue is empty
       * for a moment in the middle of one hold of the channel lock (anyone waiting for "empty" is notified) and
       * is not empty any more when that hold ends */
      atomic_fetch_add_explicit(&et_cb_cancel_then_chain, 1, ET_RELAX);
      ares_cancel(et_channel);
    }
    atomic_fetch_add_explicit(&et_cb_chained, 1, ET_RELAX);
    et_issue(&sp, -1, et_channel, 0);
  }
}

static void et_cb_dnsrec(void *arg, ares_status_t status, size_t timeouts, const ares_dns_record_t *rec)
{
  (void)timeouts;
  (void)rec;
  et_cb_common((et_req_t *)arg, (int)status);
}
static void et_cb_addrinfo(void *arg, int status, int timeouts, struct ares_addrinfo *res)
{
  (void)timeouts;
  if (res != NULL) {
    ares_freeaddrinfo(res);
  }
  et_cb_common((et_req_t *)arg, status);
}
static void et_cb_host(void *arg, int status, int timeouts, struct hostent *h)
{
  (void)timeouts;
  (void)h;
  et_cb_common((et_req_t *)arg, status);
}
static void et_cb_nameinfo(void *arg, int status, int timeouts, char *node, char *service)
{
  (void)timeouts;
  (void)node;
  (void)service;
  et_cb_common((et_req_t *)arg, status);
}

/* busy-traffic scenario: answered questions asked again from their own callbacks, without a slot in the request table
 * (there are tens of thousands of them); only counted */
static _Atomic int et_perp_outstanding;
static void        et_perp_issue(intptr_t k);
static void et_cb_perp(void *arg, ares_status_t status, size_t timeouts, const ares_dns_record_t *rec)
{
  (void)timeouts;
  (void)rec;
  atomic_fetch_sub(&et_perp_outstanding, 1);
  atomic_fetch_add_explicit(&et_progress, 1, ET_RELAX);
  if (status != ARES_EDESTRUCTION && status != ARES_ECANCELLED && !atomic_load(&et_closing) && !atomic_load(&et_perpetual_stop)) {
    et_perp_issue((intptr_t)arg);
  }
}
static void et_perp_issue(intptr_t k)
{
  char nm[40];
  snprintf(nm, sizeof(nm), "ok%d.ex.test", (int)(k % 8));
  atomic_fetch_add(&et_perp_outstanding, 1);
  atomic_fetch_add_explicit(&et_perpetual_issued, 1, ET_RELAX);
  ares_query_dnsrec(et_channel, nm, ARES_CLASS_IN, ARES_REC_TYPE_A, et_cb_perp, (void *)k, NULL);
}

/* ---------- request generation ---------- */
static const char *const et_domains[2] = { "s1.test", "s2.test" };

static void et_make_spec(vh_rng_t *g, int kind, et_reqspec_t *sp, int allow_chain)
{
  static const char *const pfx[] = { "ok", "ok", "h", "h", "w", "nx", "dly", "sil" };
  static const int         qt[]  = { 1, 1, 28, 16 };
  int                      p     = (int)vh_below(g, 8);
  int                      n     = (int)vh_below(g, 6);
  memset(sp, 0, sizeof(*sp));
  sp->kind       = kind;
  sp->qtype      = qt[vh_below(g, 4)];
  sp->family     = (int[]){ AF_INET, AF_INET6, AF_UNSPEC }[vh_below(g, 3)];
  sp->chain_kind = -1;
  if (et_cfg.profile == ET_P_STRESS && p == 7 && !vh_chance(g, 1, 4)) {
    p = 0; /* keep silent names rare: each costs a full retry budget */
  }
  if (allow_chain && vh_chance(g, 1, 6)) {
    sp->chain_kind = (int)vh_below(g, K_NREQ);
  }
  if (et_cfg.slow_cb_us && vh_chance(g, 1, 4)) {
    sp->cb_sleep_us = et_cfg.slow_cb_us;
  }
  switch (kind) {
    case K_SEND:
    case K_QUERY:
      snprintf(sp->name, sizeof(sp->name), "%s%d.ex.test", pfx[p], n);
      break;
    case K_SEARCH:
    case K_GAI:
    case K_GHBN:
      switch (vh_below(g, 5)) {
        case 0:
          snprintf(sp->name, sizeof(sp->name), "%s%d", pfx[p], n); /* unqualified: walks the search list */
          break;
        case 1:
          snprintf(sp->name, sizeof(sp->name), "hosty.test"); /* in the hosts file */
          break;
        case 2:
          snprintf(sp->name, sizeof(sp->name), "%s%d.ex.test.", pfx[p], n);
          break;
        default:
          snprintf(sp->name, sizeof(sp->name), "%s%d.ex.test", pfx[p], n);
          break;
      }
      if (kind == K_GHBN && sp->family == AF_UNSPEC && vh_chance(g, 1, 2)) {
        sp->family = AF_INET;
      }
      break;
    case K_GHBA:
    case K_GNI:
      sp->family = vh_chance(g, 3, 4) ? AF_INET : AF_INET6;
      sp->flags  = (int)vh_below(g, 4); /* low bits pick the address */
      break;
    default:
      break;
  }
  if (et_cfg.profile == ET_P_STRESS && vh_chance(g, 1, 12)) {
    /* error exits: a name no query can be built from / an address family nobody resolves */
    sp->bad = 1;
    if (kind != K_GHBA && kind != K_GNI) {
      static const char *const badn[] = { "bad..ex.test", "a-label-that-is-far-longer-than-the-sixty-three-octets-a-label-may-have.test",
                                          ".bad.test", "bad\\1x.test" };
      snprintf(sp->name, sizeof(sp->name), "%s", badn[vh_below(g, 4)]);
    }
  }
}

static int et_req_nseq(int kind)
{
  switch (kind) {
    case K_SEARCH:
    case K_GAI:
    case K_GHBN:
      return 1 + 2; /* as-is + two search domains, sequentially */
    default:
      return 1;
  }
}

static int et_issue(const et_reqspec_t *sp, int issuer, ares_channel_t *chan, int on_dup)
{
  int       i = atomic_fetch_add(&et_nreq, 1);
  et_req_t *r;
  int64_t   now;
  if (i >= ET_MAX_REQ) {
    atomic_fetch_sub(&et_nreq, 1);
    atomic_store(&et_req_overflow, 1);
    return -1;
  }
  r              = &et_reqs[i];
  r->chain_kind  = sp->chain_kind;
  r->cb_sleep_us = sp->cb_sleep_us;
  now            = et_now_ns();
  atomic_store(&r->kind, sp->kind);
  atomic_store(&r->issuer, issuer);
  atomic_store(&r->on_dup, on_dup);
  atomic_store(&r->conn_sit, atomic_load_explicit(&et_open_lib_socks, ET_RELAX) > 0
                               ? (atomic_load(&et_outstanding) > 0 ? ET_CONN_BUSY : ET_CONN_IDLE)
                               : ET_CONN_FRESH);
  {
    int b = atomic_load_explicit(&et_srv_beh[0], ET_RELAX);
    atomic_store(&r->srv_sit, b == ET_B_SILENT ? ET_SIT_SILENT : b == ET_B_CLOSE ? ET_SIT_CLOSE : ET_SIT_ANSWER);
  }
  if (et_cfg.profile == ET_P_TIMERS) {
    atomic_store(&r->conn_sit, et_cfg.conn_sit);
    atomic_store(&r->srv_sit, et_cfg.srv_sit);
  }
  atomic_store(&r->deadline,
               now + ((int64_t)4 * et_query_budget_ms() * et_req_nseq(sp->kind) + 3000) * 1000000LL);
  atomic_store(&r->t_issue, now);
  atomic_fetch_add(&et_outstanding, 1);
  atomic_store(&r->s_start, et_seq());
  switch (sp->kind) {
    case K_SEND:
    case K_SEARCH:
      {
        ares_dns_record_t *rec = NULL;
        if (ares_dns_record_create(&rec, 0, ARES_FLAG_RD, ARES_OPCODE_QUERY, ARES_RCODE_NOERROR) != ARES_SUCCESS ||
            ares_dns_record_query_add(rec, sp->name, (ares_dns_rec_type_t)sp->qtype, ARES_CLASS_IN) !=
              ARES_SUCCESS) {
          ares_dns_record_destroy(rec);
          et_cb_common(r, ARES_ENOMEM); /* never reached the library: account for it ourselves */
          break;
        }
        if (sp->kind == K_SEND) {
          unsigned short qid = 0;
          ares_send_dnsrec(chan, rec, et_cb_dnsrec, r, &qid);
        } else {
          ares_search_dnsrec(chan, rec, et_cb_dnsrec, r);
        }
        ares_dns_record_destroy(rec);
      }
      break;
    case K_QUERY:
      ares_query_dnsrec(chan, sp->name, ARES_CLASS_IN, (ares_dns_rec_type_t)sp->qtype, et_cb_dnsrec, r, NULL);
      break;
    case K_GAI:
      {
        struct ares_addrinfo_hints h;
        memset(&h, 0, sizeof(h));
        h.ai_family = sp->family;
        h.ai_flags  = (sp->qtype == 16) ? ARES_AI_NOSORT : 0;
        ares_getaddrinfo(chan, sp->name, NULL, &h, et_cb_addrinfo, r);
      }
      break;
    case K_GHBN:
      ares_gethostbyname(chan, sp->name, sp->family, et_cb_host, r);
      break;
    case K_GHBA:
      if (sp->bad) {
        struct in_addr a;
        memset(&a, 0, sizeof(a));
        ares_gethostbyaddr(chan, &a, (sp->flags & 1) ? 3 : sizeof(a), (sp->flags & 1) ? AF_INET : AF_UNIX, et_cb_host, r);
      } else if (sp->family == AF_INET) {
        struct in_addr a;
        inet_pton(AF_INET, (sp->flags & 1) ? "10.1.1.1" : "10.2.3.4", &a);
        ares_gethostbyaddr(chan, &a, sizeof(a), AF_INET, et_cb_host, r);
      } else {
        struct in6_addr a;
        inet_pton(AF_INET6, (sp->flags & 1) ? "fd00::1:1" : "fd00::2:3", &a);
        ares_gethostbyaddr(chan, &a, sizeof(a), AF_INET6, et_cb_host, r);
      }
      break;
    case K_GNI:
      if (sp->bad) {
        struct sockaddr_in sa;
        memset(&sa, 0, sizeof(sa));
        sa.sin_family = (sp->flags & 1) ? AF_INET : AF_UNIX;
        ares_getnameinfo(chan, (struct sockaddr *)&sa, (sp->flags & 1) ? 5 : sizeof(sa), ARES_NI_LOOKUPHOST, et_cb_nameinfo, r);
      } else if (sp->family == AF_INET) {
        struct sockaddr_in sa;
        memset(&sa, 0, sizeof(sa));
        sa.sin_family = AF_INET;
        sa.sin_port   = htons(53);
        inet_pton(AF_INET, (sp->flags & 1) ? "10.1.1.1" : "10.2.3.5", &sa.sin_addr);
        ares_getnameinfo(chan, (struct sockaddr *)&sa, sizeof(sa),
                         ARES_NI_LOOKUPHOST | ((sp->flags & 2) ? ARES_NI_NAMEREQD : 0), et_cb_nameinfo, r);
      } else {
        struct sockaddr_in6 sa;
        memset(&sa, 0, sizeof(sa));
        sa.sin6_family = AF_INET6;
        sa.sin6_port   = htons(53);
        inet_pton(AF_INET6, "fd00::2:4", &sa.sin6_addr);
        ares_getnameinfo(chan, (struct sockaddr *)&sa, sizeof(sa), ARES_NI_LOOKUPHOST, et_cb_nameinfo, r);
      }
      break;
    default:
      et_cb_common(r, ARES_EFORMERR);
      break;
  }
  atomic_store(&r->t_ret, et_now_ns());
  atomic_store(&r->s_ret, et_seq());
  return i;
}

/* ---------- client threads ---------- */
#define ET_MAX_CLIENTS 8
#define ET_MAX_OPS     256
typedef struct {
  int     kind;
  int64_t t_call, t_ret;
} et_oprec_t;
typedef struct {
  int        id;
  pthread_t  th;
  vh_rng_t   rng;
  int        nlog;
  et_oprec_t log[ET_MAX_OPS + 8];
  uint64_t   nops_by_kind[K_N];
  int        reinit_fail;
} et_client_t;
static et_client_t       et_clients[ET_MAX_CLIENTS];
static pthread_barrier_t et_start_bar, et_q_bar;
static _Atomic int       et_client_tids[ET_MAX_CLIENTS];
static _Atomic int       et_clients_done;

static const char *const et_srv_csv_ports[] = {
  "10.0.0.1:53", "10.0.0.1:53,10.0.0.2:5353", "10.0.0.2:53,10.0.0.1:53,10.0.0.3:53", "[fd00::1]:53,10.0.0.3:53",
  "10.0.0.3:5300,10.0.0.2:53", "10.0.0.1:53,[fd00::1]:5353"
};
static const char *const et_srv_csv[] = { "10.0.0.2,10.0.0.1", "10.0.0.1", "10.0.0.3,10.0.0.1,10.0.0.2",
                                          "fd00::1,10.0.0.1" };
static const char *const et_bad_sortlists[] = { "10.0.0.0/8 ; not-an-address", "10.0.0.0/99", "300.1.2.3/8 10.0.0.0/8",
                                                "fd00::/16 10.0.0.0/" };
static const char *const et_bad_srv_csv[] = { "10.0.0.1,,bogus", "[fd00::1", "10.0.0.999", "10.0.0.1:notaport" };
static const char *const et_sortlists[] = { "10.0.0.0/8 192.168.0.0/16", "192.168.0.0/255.255.0.0", "10.1.0.0/16",
                                            "fd00::/16 10.0.0.0/8" };

/* ---- configuration files under the scratch directory (the paths given to ARES_OPT_RESOLVCONF/HOSTS_FILE).
 * The library's Linux change monitor watches the directory "/etc" (hard-coded, whatever the configured path is)
 * and reacts to entries named resolv.conf / nsswitch.conf; --wrap=inotify_add_watch points it at the scratch
 * directory, so replacing or rewriting <scratch>/resolv.conf makes the event thread call ares_reinit(). ---- */
static _Atomic uint64_t et_n_confchg_rewrites, et_n_confchg_inplace, et_n_hosts_rewrites, et_n_confchg_observed;
static _Atomic int      et_confchg_gen;      /* bumped by every resolv.conf rewrite */
static _Atomic int      et_confchg_mask;     /* fake servers named by the latest file */
static _Atomic int      et_confchg_changed;  /* latest rewrite named other servers than the channel had before */
static _Atomic int      et_confchg_seen_gen; /* generation already counted as observed */

static int et_resolvconf_mask(int variant)
{
  return (1 << (variant % 3)) | ((variant & 1) ? 2 : 0) | ((variant & 4) ? 8 : 0);
}

static int et_csv_mask(const char *csv)
{
  int m = 0, i;
  if (csv == NULL) {
    return -1;
  }
  for (i = 0; i < ET_NSRV; i++) {
    if (strstr(csv, et_srv_text[i]) != NULL) {
      m |= 1 << i;
    }
  }
  return m;
}

static int et_write_file(const char *dst, const char *tmp, const char *body, size_t n, int inplace)
{
  int fd = open(inplace ? dst : tmp, O_WRONLY | O_CREAT | O_TRUNC | O_CLOEXEC, 0644);
  if (fd < 0) {
    return -1;
  }
  if (write(fd, body, n) != (ssize_t)n) {
    close(fd);
    return -1;
  }
  close(fd);
  if (!inplace && rename(tmp, dst) != 0) {
    return -1;
  }
  return 0;
}

static void et_write_resolvconf(int who, int variant, int inplace)
{
  char tmp[200], dst[200], body[400];
  int  n, before = -2;
  snprintf(tmp, sizeof(tmp), "%s/rc.%d.tmp", et_scratch_dir, who);
  snprintf(dst, sizeof(dst), "%s/resolv.conf", et_scratch_dir);
  n = snprintf(body, sizeof(body), "# variant %d\nnameserver %s\n%s%ssearch %s %s\noptions ndots:%d%s\n", variant,
               et_srv_text[variant % 3], (variant & 1) ? "nameserver 10.0.0.2\n" : "",
               (variant & 4) ? "nameserver fd00::1\n" : "", et_domains[0], et_domains[1], 1 + (variant & 1),
               (variant & 2) ? " rotate" : "");
  if (et_channel != NULL && et_cfg.servers_from_resolvconf && !atomic_load(&et_destroyed)) {
    char *csv = ares_get_servers_csv(et_channel);
    before    = et_csv_mask(csv);
    ares_free_string(csv);
  }
  if (et_write_file(dst, tmp, body, (size_t)n, inplace) == 0) {
    atomic_store(&et_confchg_mask, et_resolvconf_mask(variant));
    atomic_store(&et_confchg_changed, before != -2 && before != et_resolvconf_mask(variant));
    atomic_fetch_add(&et_confchg_gen, 1);
    atomic_fetch_add_explicit(&et_n_confchg_rewrites, 1, ET_RELAX);
    if (inplace) {
      atomic_fetch_add_explicit(&et_n_confchg_inplace, 1, ET_RELAX);
    }
  }
}

static void et_write_hosts(int who, int variant, int inplace)
{
  char tmp[200], dst[200], body[300];
  int  n;
  snprintf(tmp, sizeof(tmp), "%s/rc.%d.tmp", et_scratch_dir, who);
  snprintf(dst, sizeof(dst), "%s/hosts", et_scratch_dir);
  n = snprintf(body, sizeof(body), "# hosts variant %d\n10.1.1.1 hosty.test hosty\nfd00::1:1 hosty.test\n%s", variant,
               (variant & 1) ? "10.1.1.2 other.test\n" : "");
  if (et_write_file(dst, tmp, body, (size_t)n, inplace) == 0) {
    atomic_fetch_add_explicit(&et_n_hosts_rewrites, 1, ET_RELAX);
  }
}

/* without source hooks a background reload is visible when the application never set servers itself: the
 * list read back becomes what the latest file says (and that differs from what it was before the rewrite) */
static void et_observe_reload(const char *csv)
{
  int g1 = atomic_load(&et_confchg_gen), m, g2, seen;
  if (!et_cfg.servers_from_resolvconf || g1 == 0 || !atomic_load(&et_confchg_changed)) {
    return;
  }
  m  = atomic_load(&et_confchg_mask);
  g2 = atomic_load(&et_confchg_gen);
  if (g1 != g2 || et_csv_mask(csv) != m) {
    return;
  }
  seen = atomic_load(&et_confchg_seen_gen);
  if (seen < g1 && atomic_compare_exchange_strong(&et_confchg_seen_gen, &seen, g1)) {
    atomic_fetch_add_explicit(&et_n_confchg_observed, 1, ET_RELAX);
  }
}

/* every library call of a client sits in its own frame named after the entry point, so that a sanitizer
 * stack that lost the library frame (intercepted memcpy in a leaf) still names the call */
#define ET_NOINLINE __attribute__((noinline))
static ET_NOINLINE void et_api_cancel(void) { ares_cancel(et_channel); }
static ET_NOINLINE int et_api_set_servers_ports_csv(const char *c) { return ares_set_servers_ports_csv(et_channel, c); }
static ET_NOINLINE int et_api_set_servers_csv(const char *c) { return ares_set_servers_csv(et_channel, c); }
static ET_NOINLINE int et_api_set_sortlist(const char *c) { return ares_set_sortlist(et_channel, c); }
static ET_NOINLINE ares_status_t et_api_reinit(void) { return ares_reinit(et_channel); }
static ET_NOINLINE size_t et_api_queue_active_queries(void) { return ares_queue_active_queries(et_channel); }
static ET_NOINLINE char *et_api_get_servers_csv(void) { return ares_get_servers_csv(et_channel); }
static ET_NOINLINE int et_api_save_options(struct ares_options *o, int *mask) { return ares_save_options(et_channel, o, mask); }
static ET_NOINLINE void et_api_timeout(struct timeval *maxtv, struct timeval *tv) { (void)ares_timeout(et_channel, maxtv, tv); }
static ET_NOINLINE int et_api_dup(ares_channel_t **d) { return ares_dup(d, et_channel); }
static ET_NOINLINE ares_status_t et_api_queue_wait_empty(int ms) { return ares_queue_wait_empty(et_channel, ms); }

static void et_record_wait(int timeout_ms, int quiesced)
{
  int           i = atomic_fetch_add(&et_nwaits, 1);
  et_waitrec_t *w;
  ares_status_t st;
  if (i >= ET_MAX_WAITS) {
    atomic_fetch_sub(&et_nwaits, 1);
    (void)et_api_queue_wait_empty(timeout_ms);
    return;
  }
  w = &et_waits[i];
  atomic_store(&w->timeout_ms, timeout_ms);
  atomic_store(&w->quiesced, quiesced);
  atomic_store(&w->active_after, -1);
  atomic_store(&w->t2, 0);
  atomic_store(&w->t1, et_seq());
  st = et_api_queue_wait_empty(timeout_ms);
  if (quiesced && st == ARES_SUCCESS) {
    atomic_store(&w->active_after, (int)et_api_queue_active_queries());
  }
  atomic_store(&w->status, (int)st);
  atomic_store(&w->t2, et_seq());
}

static int et_pick_kind(et_client_t *c)
{
  int total = 0, i, x;
  for (i = 0; i < K_N; i++) {
    total += et_cfg.weights[i];
  }
  x = (int)vh_below(&c->rng, (uint32_t)total);
  for (i = 0; i < K_N; i++) {
    if (x < et_cfg.weights[i]) {
      return i;
    }
    x -= et_cfg.weights[i];
  }
  return K_PAUSE;
}

/* A public call made from an application thread (not from inside a callback) has returned: the thread must hold
 * none of the library's mutexes any more.  The channel mutex is recursive, so the thread that leaked it notices
 * nothing; every other thread blocks for ever.  et_depth is this thread's count of wrapped mutexes held. */
static uint64_t         et_cur_idx;
static _Atomic uint64_t et_n_lockbal_eval, et_n_refused;
static _Atomic int      et_dup_live;
static _Atomic int64_t  et_dup_last_end_ns;
static void et_check_no_lock_held(int kind)
{
  atomic_fetch_add_explicit(&et_n_lockbal_eval, 1, ET_RELAX);
  if (et_depth != 0) {
    printf("V %llu lock:et:held-after-return | %s returned to the application thread with %d library mutex(es) still "
           "locked by that thread (the channel mutex is recursive: this thread goes on, every other thread blocks)\n",
           (unsigned long long)et_cur_idx, et_kind_name[kind], et_depth);
    fflush(stdout);
    et_depth = 0;
  }
}

static void et_do_op(et_client_t *c, int kind)
{
  vh_rng_t *g = &c->rng;
  switch (kind) {
    case K_SEND:
    case K_QUERY:
    case K_SEARCH:
    case K_GAI:
    case K_GHBN:
    case K_GHBA:
    case K_GNI:
      {
        et_reqspec_t sp;
        et_make_spec(g, kind, &sp, 1);
        et_issue(&sp, c->id, et_channel, 0);
      }
      break;
    case K_CANCEL:
      et_api_cancel();
      break;
    case K_SETSRV_PORTS:
      if (vh_chance(g, 1, 5)) {
        if (et_api_set_servers_ports_csv(et_bad_srv_csv[vh_below(g, 4)]) != ARES_SUCCESS) {
          atomic_fetch_add_explicit(&et_n_refused, 1, ET_RELAX);
        }
        break;
      }
      et_api_set_servers_ports_csv(et_srv_csv_ports[vh_below(g, 6)]);
      break;
    case K_SETSRV:
      if (vh_chance(g, 1, 5)) {
        if (et_api_set_servers_csv(et_bad_srv_csv[vh_below(g, 4)]) != ARES_SUCCESS) {
          atomic_fetch_add_explicit(&et_n_refused, 1, ET_RELAX);
        }
        break;
      }
      et_api_set_servers_csv(et_srv_csv[vh_below(g, 4)]);
      break;
    case K_SORTLIST:
      if (vh_chance(g, 1, 4)) {
        if (et_api_set_sortlist(et_bad_sortlists[vh_below(g, 4)]) != ARES_SUCCESS) {
          atomic_fetch_add_explicit(&et_n_refused, 1, ET_RELAX);
        }
        break;
      }
      et_api_set_sortlist(et_sortlists[et_cfg.sortlist_one_size ? 3 * vh_below(g, 2) : vh_below(g, 4)]);
      break;
    case K_REINIT:
      if (et_api_reinit() != ARES_SUCCESS) {
        c->reinit_fail++;
      }
      break;
    case K_WAIT_FIN:
      et_record_wait((int)vh_below(g, 4) * 5, 0);
      break;
    case K_WAIT_INF:
      et_record_wait(-1, 0);
      break;
    case K_ACTIVE:
      (void)et_api_queue_active_queries();
      break;
    case K_GETSRV:
      {
        char *s = et_api_get_servers_csv();
        et_observe_reload(s);
        ares_free_string(s);
      }
      break;
    case K_SAVEOPT:
      {
        struct ares_options o;
        int                 mask = 0;
        memset(&o, 0, sizeof(o));
        if (et_api_save_options(&o, &mask) == ARES_SUCCESS) {
          ares_destroy_options(&o);
        }
      }
      break;
    case K_TIMEOUT:
      {
        struct timeval maxtv = { 1, 0 }, tv;
        et_api_timeout(vh_chance(g, 1, 2) ? &maxtv : NULL, &tv);
      }
      break;
    case K_DUP:
      {
        ares_channel_t *d = NULL;
        atomic_fetch_add(&et_dup_live, 1);
        if (et_api_dup(&d) == ARES_SUCCESS && d != NULL) {
          if (vh_chance(g, 1, 2)) {
            et_reqspec_t sp;
            et_make_spec(g, K_QUERY, &sp, 0);
            et_issue(&sp, c->id, d, 1);
          }
          ares_destroy(d);
        }
        atomic_store(&et_dup_last_end_ns, et_now_ns());
        atomic_fetch_sub(&et_dup_live, 1);
      }
      break;
    case K_CONFCHG:
      {
        int v = (int)vh_below(g, 8), how = (int)vh_below(g, 8);
        if (how == 0) {
          et_write_hosts(c->id, v, 0);
        } else if (how == 1) {
          et_write_hosts(c->id, v, 1);
        } else {
          et_write_resolvconf(c->id, v, how >= 6); /* temp name + rename() mostly, in-place truncate+write sometimes */
        }
      }
      break;
    case K_BEHCHG:
      {
        int s = (int)vh_below(g, ET_NSRV);
        int b = (int)vh_below(g, ET_B_N);
        if (b == ET_B_SILENT && !vh_chance(g, 1, 3)) {
          b = ET_B_ANSWER;
        }
        atomic_store_explicit(&et_srv_beh[s], b, ET_RELAX);
      }
      break;
    default:
      {
        uint32_t x = vh_below(g, 8);
        if (x < 4) {
          sched_yield();
        } else {
          et_sleep_us(50 + (long)vh_below(g, 400) * (x == 7 ? 8 : 1));
        }
      }
      break;
  }
}

static void et_client_log(et_client_t *c, int kind, int64_t t0)
{
  if (c->nlog < ET_MAX_OPS + 8) {
    c->log[c->nlog].kind   = kind;
    c->log[c->nlog].t_call = t0;
    c->log[c->nlog].t_ret  = et_now_ns();
    c->nlog++;
  }
  c->nops_by_kind[kind]++;
  atomic_fetch_add_explicit(&et_progress, 1, ET_RELAX);
}

static void *et_client_stress(void *arg)
{
  et_client_t *c = (et_client_t *)arg;
  int          i;
  et_role = ET_ROLE_CLIENT0 + c->id;
  atomic_store(&et_client_tids[c->id], et_gettid());
  pthread_barrier_wait(&et_start_bar);
  for (i = 0; i < et_cfg.nops; i++) {
    int     kind;
    int64_t t0;
    if (et_cfg.quiesce && i == et_cfg.nops / 2) {
      /* quiesced phase: every issuer is parked; one thread waits for the queue to drain */
      pthread_barrier_wait(&et_q_bar);
      if (c->id == 0) {
        t0 = et_now_ns();
        et_record_wait(-1, 1);
        et_client_log(c, K_WAIT_INF, t0);
      }
      pthread_barrier_wait(&et_q_bar);
    }
    kind = et_pick_kind(c);
    if (kind == K_REINIT) {
      int ok = (et_cfg.reinit_mode == 2 || et_cfg.reinit_mode == 4) || (et_cfg.reinit_mode == 1 && c->id == 0);
      if (!ok) {
        kind = K_GETSRV;
      }
    }
    if (kind == K_CONFCHG && !(et_cfg.reinit_mode == 3 || et_cfg.reinit_mode == 4)) {
      kind = K_ACTIVE;
    }
    t0 = et_now_ns();
    et_do_op(c, kind);
    et_client_log(c, kind, t0);
    et_check_no_lock_held(kind);
  }
  atomic_fetch_add(&et_clients_done, 1);
  return NULL;
}

/* ---------- watchdog / monitor thread ---------- */
static _Atomic int et_mon_stop;

static void et_cleanup_scratch(void)
{
  char p[200];
  int  i;
  if (!et_scratch_dir[0]) {
    return;
  }
  snprintf(p, sizeof(p), "%s/resolv.conf", et_scratch_dir);
  unlink(p);
  snprintf(p, sizeof(p), "%s/hosts", et_scratch_dir);
  unlink(p);
  snprintf(p, sizeof(p), "%s/gdb.txt", et_scratch_dir);
  unlink(p);
  for (i = 0; i < ET_MAX_CLIENTS + 2; i++) {
    snprintf(p, sizeof(p), "%s/rc.%d.tmp", et_scratch_dir, i);
    unlink(p);
  }
  rmdir(et_scratch_dir);
}

/* leave the process from the watchdog: the text goes out with write(2) (stdout is quiet: the main thread has
 * printed and flushed only the "C <idx>" line), then "E" so that the driver reads a complete chunk */
static void et_die(const char *text)
{
  char    tail[128];
  int     n, rep = atomic_load(&et_tsan_reports);
  ssize_t r;
  r = write(1, text, strlen(text));
  n = snprintf(tail, sizeof(tail), "N et.watchdog_exit 1\nN tsan.reports %d\nE\n", rep);
  r = write(1, tail, (size_t)n);
  (void)r;
  et_cleanup_scratch();
  /* TSan reports are on stderr already; exit 66 (TSAN_OPTIONS exitcode) makes the driver key them.  The raw
   * system call is used because TSan's _exit() interceptor would run its end-of-process checks and report the
   * harness threads nobody can join any more as leaked. */
  syscall(SYS_exit_group, rep > 0 ? 66 : 0);
  _exit(rep > 0 ? 66 : 0);
}

static void et_ring_excerpt(char *buf, size_t cap, int64_t now)
{
  unsigned head = atomic_load(&et_ring_head);
  int      main_tid = atomic_load(&et_main_et_tid);
  size_t   o = 0;
  int      shown = 0;
  unsigned k;
  for (k = 0; k < ET_RING && k < head && shown < 6; k++) {
    et_wait_t *w = &et_ring[(head - 1 - k) % ET_RING];
    int64_t    te, tx;
    if (atomic_load(&w->tid) != main_tid) {
      continue;
    }
    te = atomic_load(&w->t_enter);
    tx = atomic_load(&w->t_exit);
    o += (size_t)snprintf(buf + o, cap - o, "[%s(timeout=%d) entered %.1fms ago %s rv=%d]",
                          et_backend_name[atomic_load(&w->backend)], atomic_load(&w->timeout_ms),
                          (double)(now - te) / 1e6, tx ? "returned" : "STILL-INSIDE", atomic_load(&w->rv));
    if (tx) {
      o += (size_t)snprintf(buf + o, cap - o, "(after %.1fms)", (double)(tx - te) / 1e6);
    }
    shown++;
    if (o + 160 > cap) {
      break;
    }
  }
  if (o == 0) {
    snprintf(buf, cap, "[no wait of the event thread recorded]");
  }
}

/* state witness for a missed deadline: the event thread is inside a wait that is infinite (or ends later than
 * deadline + 1 s), it has been there for >= 500 ms (a pending wake-up would have ended the wait at once:
 * the wake pipe is level-triggered), and it is the same wait as `prev_slot` when that is given */
static int et_witness(int64_t now, int64_t deadline, int *slot_out)
{
  int        slot = atomic_load(&et_main_cur_slot);
  et_wait_t *w;
  int64_t    te;
  int        tmo;
  if (slot < 0) {
    return 0;
  }
  w   = &et_ring[slot];
  te  = atomic_load(&w->t_enter);
  tmo = atomic_load(&w->timeout_ms);
  if (atomic_load(&w->t_exit) != 0 || atomic_load(&et_main_cur_slot) != slot) {
    return 0;
  }
  if (now - te < 500 * 1000000LL) {
    return 0;
  }
  if (tmo >= 0 && te + (int64_t)tmo * 1000000LL <= deadline + 1000000000LL) {
    return 0;
  }
  *slot_out = slot;
  return 1;
}

/* gdb: all thread stacks into <scratch>/gdb.txt; returns malloc'd text or NULL */
static char *et_gdb_stacks(void)
{
  char  path[200], pidbuf[32];
  pid_t pid;
  int   st = 0;
  FILE *f;
  char *txt;
  long  n;
  snprintf(path, sizeof(path), "%s/gdb.txt", et_scratch_dir);
  snprintf(pidbuf, sizeof(pidbuf), "%d", (int)getpid());
  prctl(PR_SET_PTRACER, PR_SET_PTRACER_ANY, 0, 0, 0);
  pid = fork();
  if (pid < 0) {
    return NULL;
  }
  if (pid == 0) {
    int fd = open(path, O_WRONLY | O_CREAT | O_TRUNC, 0644);
    if (fd >= 0) {
      dup2(fd, 1);
      dup2(fd, 2);
    }
    alarm(60);
    execlp("gdb", "gdb", "-q", "-nx", "-p", pidbuf, "-batch", "-ex", "thread apply all bt 12", (char *)NULL);
    _exit(127);
  }
  while (waitpid(pid, &st, 0) < 0 && errno == EINTR) {
  }
  f = fopen(path, "r");
  if (f == NULL) {
    return NULL;
  }
  txt = (char *)malloc(400000);
  n   = txt ? (long)fread(txt, 1, 399999, f) : 0;
  fclose(f);
  if (txt) {
    txt[n] = 0;
  }
  return txt;
}

/* innermost frames located in the library sources of the thread with the given LWP id */
static void et_gdb_lib_frames(const char *txt, int lwp, char *out, size_t cap)
{
  char        pat[48];
  const char *p, *end;
  int         n = 0;
  size_t      o = 0;
  out[0]        = 0;
  snprintf(pat, sizeof(pat), "(LWP %d)", lwp);
  p = strstr(txt, pat);
  if (p == NULL) {
    snprintf(out, cap, "?");
    return;
  }
  end = strstr(p, "\nThread ");
  if (end == NULL) {
    end = p + strlen(p);
  }
  while (p < end && n < 3) {
    const char *ln = strchr(p, '\n');
    const char *e2;
    if (ln == NULL || ln >= end) {
      break;
    }
    ln++;
    e2 = strchr(ln, '\n');
    if (e2 == NULL) {
      e2 = end;
    }
    if (*ln == '#') {
      /* "#3  0x... in func (args) at /path/src/lib/x.c:12"  or "#0  func (args) at ..." */
      const char *at = NULL, *q;
      for (q = ln; q + 4 < e2; q++) {
        if (memcmp(q, " at ", 4) == 0) {
          at = q + 4;
        }
      }
      if (at != NULL && (size_t)(e2 - at) > 9) {
        const char *lib = NULL;
        for (q = at; q + 9 <= e2; q++) {
          if (memcmp(q, "/src/lib/", 9) == 0) {
            lib = q;
            break;
          }
        }
        if (lib != NULL) {
          const char *fn = strstr(ln, " in ");
          const char *fe;
          if (fn != NULL && fn < at) {
            fn += 4;
          } else {
            fn = ln;
            while (fn < e2 && *fn != ' ') {
              fn++;
            }
            while (fn < e2 && *fn == ' ') {
              fn++;
            }
          }
          fe = fn;
          while (fe < e2 && *fe != ' ' && *fe != '(') {
            fe++;
          }
          if (fe > fn && o + (size_t)(fe - fn) + 2 < cap) {
            if (n) {
              out[o++] = '<';
            }
            memcpy(out + o, fn, (size_t)(fe - fn));
            o     += (size_t)(fe - fn);
            out[o] = 0;
            n++;
          }
        }
      }
    }
    p = e2;
  }
  if (n == 0) {
    snprintf(out, cap, "-");
  }
}

static void et_report_hang(int64_t now, const char *why)
{
  char  *txt = et_gdb_stacks();
  char   etf[200] = "?", clf[200] = "-", line[3000], ring[1200];
  int    i;
  if (txt != NULL) {
    et_gdb_lib_frames(txt, atomic_load(&et_main_et_tid), etf, sizeof(etf));
    for (i = 0; i < et_cfg.nclients; i++) {
      char tmp[200];
      et_gdb_lib_frames(txt, atomic_load(&et_client_tids[i]), tmp, sizeof(tmp));
      if (strcmp(tmp, "-") != 0 && strcmp(tmp, "?") != 0) {
        memcpy(clf, tmp, sizeof(clf));
        break;
      }
    }
    if (vh_verbose) {
      ssize_t r = write(2, txt, strlen(txt));
      (void)r;
    }
  } else {
    snprintf(etf, sizeof(etf), "nostacks");
  }
  et_ring_excerpt(ring, sizeof(ring), now);
  snprintf(line, sizeof(line),
           "V %llu hang:et:%s|%s | %s: no progress for 20 s; outstanding=%d clients_done=%d/%d backend=%s; event "
           "thread frames=%s; blocked client frames=%s; waits(most recent first): %s\n",
           (unsigned long long)et_cur_idx, etf, clf, why, atomic_load(&et_outstanding), atomic_load(&et_clients_done),
           et_cfg.nclients, et_backend_name[et_cfg.backend == 0 ? 0 : et_cfg.backend - 1], etf, clf, ring);
  free(txt);
  et_die(line);
}

/* Lost wake-up, observed directly.  The library's end of a connection has unread data since time t0 (seen by
 * polling it under the table lock, so it cannot be closed meanwhile), and the event thread of the channel ENTERED
 * a wait later than t0 that went on for more than 150 ms: all three back ends are level-triggered, the
 * registration was queued (and the thread woken) before the first datagram could be sent on the socket, so a wait
 * entered with the data already there has to return at once.  Only judged while no duplicate channel (own event
 * thread, same socket table) exists. */
static _Atomic uint64_t et_n_readable_seen, et_n_readable_judged, et_n_readable_overload;
static void et_check_slept_through(int64_t now)
{
  static int64_t last_tick;
  int            i, overloaded;
  /* the monitor ticks every 20 ms; a tick that comes 80 ms late says the machine is not scheduling us: no
   * judgement on durations then, and the observation starts over */
  overloaded = last_tick != 0 && now - last_tick > 80 * 1000000LL;
  last_tick  = now;
  if (overloaded) {
    atomic_fetch_add_explicit(&et_n_readable_overload, 1, ET_RELAX);
  }
  if (overloaded || atomic_load(&et_dup_live) != 0 || atomic_load(&et_closing) || et_cfg.busy_traffic) {
    /* (busy-traffic scenario: datagrams arrive all the time, "readable since" says nothing about one datagram) */
    ET_LOCK(&et_net_mu);
    for (i = 0; i < ET_MAX_PEERS; i++) {
      et_peers[i].readable_since = 0;
    }
    ET_UNLOCK(&et_net_mu);
    return;
  }
  ET_LOCK(&et_net_mu);
  for (i = 0; i < ET_MAX_PEERS; i++) {
    et_peer_t    *p = &et_peers[i];
    struct pollfd pf;
    unsigned      head, k;
    int           tid;
    if (!p->used || p->lib_closed || p->srv < 0) {
      continue;
    }
    pf.fd      = p->lib_fd;
    pf.events  = POLLIN;
    pf.revents = 0;
    if (__real_poll(&pf, 1, 0) != 1 || !(pf.revents & POLLIN)) {
      p->readable_since = 0;
      continue;
    }
    if (p->readable_since == 0) {
      p->readable_since = now;
      atomic_fetch_add_explicit(&et_n_readable_seen, 1, ET_RELAX);
      continue;
    }
    if (now - p->readable_since < 200 * 1000000LL || p->readable_since <= atomic_load(&et_dup_last_end_ns)) {
      continue;
    }
    atomic_fetch_add_explicit(&et_n_readable_judged, 1, ET_RELAX);
    tid  = atomic_load(&et_main_et_tid);
    head = atomic_load(&et_ring_head);
    for (k = 0; k < 64 && k < head; k++) {
      et_wait_t *w  = &et_ring[(head - 1 - k) % ET_RING];
      int64_t    te = atomic_load_explicit(&w->t_enter, memory_order_acquire);
      int64_t    tx = atomic_load_explicit(&w->t_exit, memory_order_acquire);
      if (atomic_load(&w->tid) != tid || te <= p->readable_since + 5 * 1000000LL) {
        continue;
      }
      if ((tx == 0 ? now : tx) - te > 150 * 1000000LL && atomic_load_explicit(&w->t_enter, memory_order_acquire) == te) {
        char line[700];
        snprintf(line, sizeof(line),
                 "V %llu wake:et:slept-through-readable-socket:%s | the library's %s socket to server %d (descriptor %d) "
                 "has had unread data for %.0f ms; the event thread entered a %s wait (timeout %d ms) %.0f ms after the "
                 "data was first seen and stayed in it for %.0f ms%s\n",
                 (unsigned long long)et_cur_idx, et_backend_name[atomic_load(&w->backend)], p->is_tcp ? "TCP" : "UDP",
                 p->srv, p->lib_fd, (double)(now - p->readable_since) / 1e6, et_backend_name[atomic_load(&w->backend)],
                 atomic_load(&w->timeout_ms), (double)(te - p->readable_since) / 1e6,
                 (double)((tx == 0 ? now : tx) - te) / 1e6, tx == 0 ? " (still inside)" : "");
        ET_UNLOCK(&et_net_mu);
        et_die(line);
      }
    }
  }
  ET_UNLOCK(&et_net_mu);
}

static void *et_monitor(void *arg)
{
  uint64_t last_prog = atomic_load(&et_progress);
  int64_t  last_prog_t = et_now_ns();
  int      confirm_slot = -1, confirm_req = -1;
  int64_t  confirm_t = 0;
  (void)arg;
  et_role = ET_ROLE_MON;
  while (!atomic_load_explicit(&et_mon_stop, memory_order_acquire)) {
    int64_t  now;
    uint64_t pr;
    int      i, n, overdue = -1, any_out = 0;
    et_sleep_us(20000);
    now = et_now_ns();
    pr  = atomic_load(&et_progress);
    if (pr != last_prog) {
      last_prog   = pr;
      last_prog_t = now;
    }
    if (atomic_load(&et_destroyed)) {
      continue; /* the channel is gone; main is wrapping up */
    }
    et_check_slept_through(now);
    n = atomic_load(&et_nreq);
    if (n > ET_MAX_REQ) {
      n = ET_MAX_REQ;
    }
    for (i = 0; i < n; i++) {
      et_req_t *r = &et_reqs[i];
      if (atomic_load(&r->cb_count) != 0 || atomic_load(&r->on_dup) || atomic_load(&r->t_issue) == 0) {
        continue;
      }
      any_out = 1;
      if (now > atomic_load(&r->deadline)) {
        overdue = i;
        break;
      }
    }
    if (overdue >= 0) {
      et_req_t *r = &et_reqs[overdue];
      int       slot;
      if (et_witness(now, atomic_load(&r->deadline), &slot)) {
        if (confirm_req == overdue && confirm_slot == slot && now - confirm_t >= 300 * 1000000LL) {
          char line[3000], ring[1200];
          et_ring_excerpt(ring, sizeof(ring), now);
          snprintf(line, sizeof(line),
                   "V %llu timer:et:missed-deadline:%s:%s | request #%d (%s) issued %.0f ms ago is still outstanding "
                   "%.0f ms after its deadline (4 x budget %d ms x %d + 3000 ms); outstanding=%d; backend=%s "
                   "stayopen=%d usevc=%d timeout=%d tries=%d idle_after_timeout=%d; the event thread has been inside its wait since before "
                   "and nothing woke it: %s\n",
                   (unsigned long long)et_cur_idx, et_conn_name[atomic_load(&r->conn_sit)],
                   et_sit_name[atomic_load(&r->srv_sit)], overdue, et_kind_name[atomic_load(&r->kind)],
                   (double)(now - atomic_load(&r->t_issue)) / 1e6, (double)(now - atomic_load(&r->deadline)) / 1e6,
                   et_query_budget_ms(), et_req_nseq(atomic_load(&r->kind)), atomic_load(&et_outstanding),
                   et_backend_name[et_cfg.backend == 0 ? 0 : et_cfg.backend - 1], et_cfg.stayopen, et_cfg.usevc,
                   et_cfg.timeout_ms, et_cfg.tries, et_cfg.idle_after_timeout, ring);
          et_die(line);
        }
        if (confirm_req != overdue || confirm_slot != slot) {
          confirm_req  = overdue;
          confirm_slot = slot;
          confirm_t    = now;
        }
      } else {
        /* second witness: the event thread is not asleep at all - since the deadline passed it has gone round its
         * loop (entered and left a wait) 25 times or more, and each round handles the deadlines that are due; that
         * cannot be put down to a slow machine (an interrupted wait that is restarted with the full timeout looks
         * like this) */
        int64_t  dl   = atomic_load(&r->deadline);
        int      tid  = atomic_load(&et_main_et_tid), rounds = 0;
        unsigned head = atomic_load(&et_ring_head), k;
        for (k = 0; k < 512 && k < head; k++) {
          et_wait_t *w = &et_ring[(head - 1 - k) % ET_RING];
          if (atomic_load(&w->tid) == tid && atomic_load_explicit(&w->t_enter, memory_order_acquire) > dl &&
              atomic_load_explicit(&w->t_exit, memory_order_acquire) != 0) {
            rounds++;
          }
        }
        if (rounds >= 25) {
          char line[3000], ring[1200];
          et_ring_excerpt(ring, sizeof(ring), now);
          snprintf(line, sizeof(line),
                   "V %llu timer:et:missed-deadline:%s:%s | request #%d (%s) issued %.0f ms ago is still outstanding "
                   "%.0f ms after its deadline (4 x budget %d ms x %d + 3000 ms) although the event thread has completed %d "
                   "waits since that deadline; backend=%s timeout=%d tries=%d signals=%d: %s\n",
                   (unsigned long long)et_cur_idx, et_conn_name[atomic_load(&r->conn_sit)],
                   et_sit_name[atomic_load(&r->srv_sit)], overdue, et_kind_name[atomic_load(&r->kind)],
                   (double)(now - atomic_load(&r->t_issue)) / 1e6, (double)(now - dl) / 1e6, et_query_budget_ms(),
                   et_req_nseq(atomic_load(&r->kind)), rounds, et_backend_name[et_cfg.backend == 0 ? 0 : et_cfg.backend - 1],
                   et_cfg.timeout_ms, et_cfg.tries, et_cfg.signals, ring);
          et_die(line);
        }
        confirm_req = -1;
        if (now > atomic_load(&r->deadline) + 15000 * 1000000LL && now - last_prog_t < 20000 * 1000000LL) {
          /* late, but the witness cannot be established and the run is still moving: not decidable */
          char line[200];
          snprintf(line, sizeof(line), "I %llu slow-machine\n", (unsigned long long)et_cur_idx);
          et_die(line);
        }
      }
    }
    if (now - last_prog_t > 20000 * 1000000LL) {
      int slot;
      /* nothing moved for 20 s.  If the event thread merely sleeps while requests are outstanding this is the
       * missed-deadline situation: let the deadline monitor above decide it (deadlines are finite). */
      if (any_out && et_witness(now, now - 2000000000LL, &slot)) {
        if (now - last_prog_t < 150000 * 1000000LL) {
          continue;
        }
      }
      et_report_hang(now, any_out ? "requests outstanding" : "no request outstanding");
    }
    if (now - et_case_t0 > 170000 * 1000000LL) {
      char line[200];
      snprintf(line, sizeof(line), "I %llu slow-machine\n", (unsigned long long)et_cur_idx);
      et_die(line);
    }
  }
  return NULL;
}

#endif
