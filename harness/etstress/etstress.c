/* etstress.c - engine E5: threaded stress of ONE channel that runs the real event thread
 * (ARES_OPT_EVENT_THREAD; epoll / poll / select), over socketpair-backed socket functions.
 *
 * Profiles
 *   stress  (C11)           2-8 client threads, seeded op mix, all monitors; built with TSan
 *   timers  (C07 threaded)  3 back ends x {fresh, idle kept-open, busy connection} x {answers, silent, closes};
 *                           bounded-completion monitor; built with ASan
 * One case = one short run.  Runs are not deterministic (real threads); the seed fixes every thread's
 * programme, the configuration and the yield-injection streams.
 *
 * Monitors: TSan reports (keyed by the driver from stderr), once:et:*, wait:et:*, timer:et:*, hang:et:*.
 * Worker-protocol output comes from the main thread only, after the client threads have been joined; the
 * watchdog thread leaves with write(2)+_exit() when the run is stuck (see et_core.h). */
#include <signal.h>
#include <time.h>
#include "ares.h"
#include <stddef.h>
#include "et_core.h"

/* ---------- configuration ---------- */
static int et_opt_stayopen = 1, et_opt_conc_reinit = 1, et_opt_reload_destroy = 1, et_opt_saveopt = 1;

static void et_make_cfg(const char *profile, vh_rng_t *g, uint64_t idx)
{
  et_cfg_t *c = &et_cfg;
  int       i;
  static const int base_w[K_N] = { 6, 8, 5, 6, 4, 3, 2, /* requests */
                                   1, 2, 1, 2, 3, 3, 1, 3, 3, 2, 3, 1, 2, /* channel calls */
                                   2, 6 };
  memset(c, 0, sizeof(*c));
  c->profile         = strcmp(profile, "timers") == 0 ? ET_P_TIMERS : ET_P_STRESS;
  c->backend         = 1 + (int)(idx % 3);
  c->tries           = 1 + (int)vh_below(g, 2);
  c->timeout_ms      = 250 + 50 * (int)vh_below(g, 2);
  c->maxtimeout_ms   = c->timeout_ms + (vh_chance(g, 1, 3) ? 100 : 0);
  c->nsrv            = 1 + (int)vh_below(g, 3);
  c->usevc           = vh_chance(g, 1, 6);
  c->igntc           = vh_chance(g, 1, 8);
  c->rotate          = vh_chance(g, 1, 3);
  c->tfo             = vh_chance(g, 1, 4);
  c->einprogress     = vh_chance(g, 1, 2);
  c->nbflag          = vh_chance(g, 1, 2);
  c->udp_max_queries = (int[]){ 0, 0, 1, 3 }[vh_below(g, 4)];
  c->qcache          = vh_chance(g, 1, 2);
  c->lookups         = (int)vh_below(g, 3);
  c->inj_density     = (int[]){ 0, 30, 120, 400 }[vh_below(g, 4)];
  for (i = 0; i < ET_NSRV; i++) {
    c->beh[i]      = ET_B_ANSWER;
    c->delay_ms[i] = 5 + (int)vh_below(g, 40);
  }
  c->nsrv_max = c->profile == ET_P_STRESS ? 3 : 2;
  if (c->profile == ET_P_STRESS) {
    if (idx % 7 == 6) {
      c->backend = 0; /* ARES_EVSYS_DEFAULT */
    }
    c->nclients            = (idx % 4 == 0) ? 2 + (int)vh_below(g, 2) : 2 + (int)vh_below(g, 7);
    c->nops                = 40 + (int)vh_below(g, 120);
    c->stayopen            = et_opt_stayopen ? vh_chance(g, 1, 4) : 0;
    c->servers_from_resolvconf = vh_chance(g, 1, 4);
    c->destroy_outstanding = vh_chance(g, 1, 3);
    c->quiesce             = vh_chance(g, 1, 2);
    c->slow_cb_us          = vh_chance(g, 1, 4) ? 200 + (int)vh_below(g, 2000) : 0;
    c->reinit_mode         = (int)vh_below(g, 5);
    c->reload_vs_destroy   = vh_chance(g, 1, 3);
    c->signals             = vh_chance(g, 1, 6);
    for (i = 0; i < ET_NSRV; i++) {
      uint32_t x = vh_below(g, 16);
      c->beh[i]  = x < 9 ? ET_B_ANSWER : x < 11 ? ET_B_DELAY : x < 12 ? ET_B_SILENT : x < 13 ? ET_B_SERVFAIL
                 : x < 14 ? ET_B_TC : x < 15 ? ET_B_CLOSE : ET_B_ANSWER;
    }
    for (i = 0; i < K_N; i++) {
      c->weights[i] = base_w[i];
      if (i >= K_NREQ) {
        c->weights[i] *= (int[]){ 0, 1, 1, 2 }[vh_below(g, 4)];
      } else if (vh_chance(g, 1, 5)) {
        c->weights[i] = 0;
      }
    }
    c->weights[K_QUERY] = c->weights[K_QUERY] ? c->weights[K_QUERY] : 4; /* never a run without requests */
    c->weights[K_PAUSE] = 4 + (int)vh_below(g, 6);
    /* ---- workload switches tied to open known findings ----------------------------------------------------
     * Three open findings corrupt memory or kill the run when they trigger (unlocked ares_save_options()/ares_dup()
     * overrunning its own output arrays, two joiners freeing one reload-thread handle, a reload thread using a
     * channel that ares_destroy() is freeing), which would void the other monitors of the run.  While such a
     * finding is open (option = 0) its trigger is kept out of the ordinary runs and confined to one case in six,
     * shaped so that it still re-finds the finding; with the option at 1 (finding closed) every run is free to
     * mix everything.                     idx%6 == 3: save_options/dup   4: reload vs destroy   5: concurrent reinit */
    {
      int sub        = (int)(idx % 6);
      int f1_run     = !et_opt_saveopt && sub == 3;
      int saveopt_ok = et_opt_saveopt || f1_run;
      int f3_ok      = et_opt_reload_destroy || sub == 4;
      int f2_ok      = et_opt_conc_reinit || sub == 5;
      if (!f2_ok && (c->reinit_mode == 2 || c->reinit_mode == 4)) {
        c->reinit_mode = (c->reinit_mode == 2) ? 1 : 3;
      }
      if (!et_opt_conc_reinit && sub == 5 && c->reinit_mode != 2 && c->reinit_mode != 4) {
        c->reinit_mode = 2 + 2 * (int)vh_below(g, 2);
      }
      if (!f3_ok) {
        c->reload_vs_destroy = 0;
      } else if (!et_opt_reload_destroy) {
        c->reload_vs_destroy = 1;
      }
      if (c->reload_vs_destroy && c->reinit_mode < 3) {
        c->reinit_mode = 3;
      }
      if (c->servers_from_resolvconf && !f1_run) {
        c->weights[K_SETSRV_PORTS] = c->weights[K_SETSRV] = 0; /* leave the server list to the file */
        c->weights[K_CONFCHG] += 2;
        c->weights[K_GETSRV]  += 2;
        if (c->reinit_mode == 0 || c->reinit_mode == 1 || c->reinit_mode == 2) {
          c->reinit_mode = (f2_ok && c->reinit_mode == 2) ? 4 : 3;
        }
      }
      if (!saveopt_ok) {
        c->weights[K_SAVEOPT] = c->weights[K_DUP] = 0;
      }
      if (f1_run) {
        /* save_options/dup against writers that cannot make it overrun (no server-list growth, sortlists of one
         * size) and without configuration changes (a duplicate watches the same directory) */
        c->weights[K_SAVEOPT]       = 4;
        c->weights[K_DUP]           = 2;
        c->weights[K_SETSRV_PORTS]  = c->weights[K_SETSRV] = 0;
        c->weights[K_SORTLIST]      = 3;
        c->weights[K_CONFCHG]       = 0;
        c->servers_from_resolvconf  = 0;
        c->sortlist_one_size        = 1;
        c->reload_vs_destroy        = 0;
        c->reinit_mode              = (int)vh_below(g, 2);
      }
      if (!et_opt_reload_destroy && (c->reinit_mode == 3 || c->reinit_mode == 4)) {
        c->weights[K_DUP] = 0; /* a duplicate destroyed while its own reload runs is the same finding */
      }
    }
  } else {
    c->nclients            = 1 + (int)vh_below(g, 2);
    c->second_client       = c->nclients == 2;
    c->conn_sit            = (int)((idx / 3) % 3);
    c->srv_sit             = (int)((idx / 9) % 3);
    /* an idle connection that stays open: ARES_FLAG_STAYOPEN after an answered query, or - without the flag -
     * after a query that ran into its timeout (idle connections are only closed at the START of the next
     * processing pass, so the connection of the last query that timed out is left open while the event thread
     * goes to sleep) */
    c->stayopen            = (c->conn_sit == ET_CONN_IDLE) ? vh_chance(g, 1, 2) : vh_chance(g, 1, 3);
    c->idle_after_timeout  = (c->conn_sit == ET_CONN_IDLE) && !c->stayopen;
    c->offset_us           = (int[]){ 0, 50, 1000, 10000, 30000 }[vh_below(g, 5)];
    c->burst               = (c->conn_sit == ET_CONN_BUSY) ? vh_chance(g, 2, 3) : 0;
    c->nsrv                = 1 + (int)vh_below(g, 2);
    c->udp_max_queries     = 0;
    c->rotate              = 0;
    c->timeout_ms          = 250;
    c->maxtimeout_ms       = 250;
    c->inj_density         = (int[]){ 0, 0, 100 }[vh_below(g, 3)];
    c->slow_cb_us          = c->burst ? 4000 + (int)vh_below(g, 3000) : 0;
    c->reinit_mode         = 0;
    c->lookups             = 0;
    /* every second block of 27: the busy connection's outstanding query is in a backed-off attempt, so the
     * deadline the event thread sleeps against is far later than the deadline of the request that arrives */
    c->backoff             = (c->conn_sit == ET_CONN_BUSY) && ((idx / 27) % 2 == 1);
    if (c->backoff) {
      c->burst         = 0;
      c->slow_cb_us    = 0;
      c->srv_sit       = ET_SIT_SILENT;
      c->nsrv          = 1;
      c->tries         = 4;
      c->timeout_ms    = 200;
      c->maxtimeout_ms = 1600;
      c->usevc         = 0;
      c->inj_density   = 0;
      c->nclients      = 1;
      c->second_client = 0;
      c->offset_us     = (int[]){ 0, 50, 1000, 10000 }[vh_below(g, 4)];
    }
    /* same blocks: the fresh-connection/silent-server cases use a per-try timeout above one second, so the
     * back end's sleep has a seconds part as well as a sub-second part */
    c->signals      = vh_chance(g, 1, 3);
    /* first block: the busy-connection/silent-server cases keep the event thread under a steady stream of answers */
    c->busy_traffic = (c->conn_sit == ET_CONN_BUSY) && (c->srv_sit == ET_SIT_SILENT) && ((idx / 27) % 2 == 0);
    if (c->busy_traffic) {
      c->burst         = 0;
      c->slow_cb_us    = 0;
      c->nsrv          = 1;
      c->tries         = 1;
      c->timeout_ms    = 250;
      c->maxtimeout_ms = 250;
      c->usevc         = 0;
      c->inj_density   = 0;
      c->nclients      = 1;
      c->second_client = 0;
      c->signals       = 0;
      c->qcache        = 0;
    }
    c->long_timeout = (c->conn_sit == ET_CONN_FRESH) && (c->srv_sit == ET_SIT_SILENT) && ((idx / 27) % 2 == 1);
    if (c->long_timeout) {
      c->nsrv          = 1;
      c->tries         = 1 + (int)vh_below(g, 2);
      c->timeout_ms    = 1050 + 150 * (int)vh_below(g, 4);
      c->maxtimeout_ms = c->timeout_ms;
      c->usevc         = 0;
      c->inj_density   = 0;
      c->nclients      = 1;
      c->second_client = 0;
      /* a signal every 37 ms cuts every sleep short: a back end that oversleeps only shows when it is left alone.
       * Signals in every second pair of blocks only. */
      if ((idx / 54) % 2 == 0) {
        c->signals = 0;
      }
    }
  }
}

/* ---------- scratch files ---------- */
static void et_setup_scratch(void)
{
  snprintf(et_scratch_dir, sizeof(et_scratch_dir), "et-%d", (int)getpid());
  mkdir(et_scratch_dir, 0755);
  et_write_resolvconf(ET_MAX_CLIENTS, et_cfg.nsrv >= 3 ? 5 : et_cfg.nsrv == 2 ? 1 : 0, 0);
  et_write_hosts(ET_MAX_CLIENTS, 0, 0);
  atomic_store(&et_n_confchg_rewrites, 0);
  atomic_store(&et_n_hosts_rewrites, 0);
  atomic_store(&et_confchg_gen, 0);
}

/* ---------- timers profile: the scripted scenario ---------- */
static int et_wait_et_asleep(int ms)
{
  int64_t t0 = et_now_ns();
  while (et_now_ns() - t0 < (int64_t)ms * 1000000) {
    int slot = atomic_load(&et_main_cur_slot);
    if (slot >= 0 && atomic_load(&et_ring[slot].t_exit) == 0 && et_now_ns() - atomic_load(&et_ring[slot].t_enter) > 200000) {
      return 1;
    }
    et_sleep_us(100);
  }
  return 0;
}

static pthread_t   et_flood_th[2];
static int         et_flood_started;
static _Atomic int et_timers_probe = -1;
static _Atomic int et_timers_asleep_seen;
static _Atomic int et_backoff_reached;
static int         et_backoff_confirming; /* second run of a case whose first run saw a late retry */
static int         et_backoff_need_confirm;

/* busy-traffic scenario: two of these keep datagrams (replies to nobody: unknown ids) coming in on every open
 * datagram socket of the library, about two per millisecond each, so that the event thread hardly ever finds a wait
 * without an event however the answering thread is scheduled */
static void *et_flooder(void *arg)
{
  /* a well-formed reply (one question: x.y A IN, no records) that answers nothing the library asked */
  uint8_t  junk[21] = { 0, 0, 0x81, 0x80, 0, 1, 0, 0, 0, 0, 0, 0, 1, 'x', 1, 'y', 0, 0, 1, 0, 1 };
  unsigned n        = (unsigned)(uintptr_t)arg * 7919u;
  et_role           = ET_ROLE_RESP;
  while (!atomic_load(&et_perpetual_stop) && !atomic_load(&et_closing)) {
    int i;
    ET_LOCK(&et_net_mu);
    for (i = 0; i < ET_MAX_PEERS; i++) {
      if (et_peers[i].used && !et_peers[i].is_tcp && !et_peers[i].peer_closed && !et_peers[i].lib_closed && et_peers[i].srv >= 0) {
        ssize_t r;
        n++;
        junk[0] = (uint8_t)(0xf0 | (n >> 8 & 0xf));
        junk[1] = (uint8_t)n;
        r       = send(et_peers[i].peer_fd, junk, sizeof(junk), MSG_NOSIGNAL | MSG_DONTWAIT);
        (void)r;
      }
    }
    ET_UNLOCK(&et_net_mu);
    /* two per millisecond each: a steady stream, not a flood the (sanitizer-instrumented) reader cannot drain when
     * sixteen cases share the machine - at ten per millisecond the library's read-until-empty loop never came to
     * an end there and the timeout behind it waited for seconds (seed 5, idx 15), which says something about that
     * loop under a real flood but is not what this scenario is for */
    et_sleep_us(500);
  }
  return NULL;
}

static void *et_client_timers(void *arg)
{
  et_client_t *c = (et_client_t *)arg;
  et_reqspec_t sp;
  int64_t      t0;
  int          i;
  et_role = ET_ROLE_CLIENT0 + c->id;
  atomic_store(&et_client_tids[c->id], et_gettid());
  pthread_barrier_wait(&et_start_bar);
  if (c->id != 0) {
    /* the optional second client only makes read-only calls: they take the channel lock but wake nobody */
    while (!atomic_load(&et_clients_done)) {
      int kind = (int[]){ K_ACTIVE, K_TIMEOUT, K_GETSRV, K_SAVEOPT }[vh_below(&c->rng, 4)];
      t0       = et_now_ns();
      et_do_op(c, kind);
      et_client_log(c, kind, t0);
      et_check_no_lock_held(kind);
      et_sleep_us(300 + (long)vh_below(&c->rng, 3000));
    }
    return NULL;
  }
  et_wait_et_asleep(2000);
  memset(&sp, 0, sizeof(sp));
  sp.kind       = K_QUERY;
  sp.qtype      = 1;
  sp.chain_kind = -1;
  if (et_cfg.conn_sit == ET_CONN_IDLE) {
    int w;
    snprintf(sp.name, sizeof(sp.name), et_cfg.idle_after_timeout ? "sil0.ex.test" : "ok0.ex.test");
    t0 = et_now_ns();
    w  = et_issue(&sp, 0, et_channel, 0);
    et_client_log(c, K_QUERY, t0);
    while (w >= 0 && atomic_load(&et_reqs[w].cb_count) == 0) {
      et_sleep_us(200); /* the watchdog bounds this */
    }
  } else if (et_cfg.busy_traffic) {
    for (i = 0; i < 8; i++) {
      t0 = et_now_ns();
      et_perp_issue(i);
      et_client_log(c, K_QUERY, t0);
    }
    __real_pthread_create(&et_flood_th[0], NULL, et_flooder, (void *)(uintptr_t)1);
    __real_pthread_create(&et_flood_th[1], NULL, et_flooder, (void *)(uintptr_t)2);
    et_flood_started = 1;
    et_sleep_us(30000);
  } else if (et_cfg.backoff) {
    int64_t w0;
    snprintf(sp.name, sizeof(sp.name), "silbk.ex.test");
    t0 = et_now_ns();
    et_issue(&sp, 0, et_channel, 0);
    et_client_log(c, K_QUERY, t0);
    /* wait for the 4th transmission: its timeout is 800..1600 ms (200 ms << 3, minus up to half as jitter) */
    w0 = et_now_ns();
    while (atomic_load(&et_bk_ntx) < 4 && et_now_ns() - w0 < 6000 * 1000000LL) {
      et_sleep_us(200);
    }
    if (atomic_load(&et_bk_ntx) >= 4) {
      atomic_store(&et_backoff_reached, 1);
    }
  } else if (et_cfg.conn_sit == ET_CONN_BUSY) {
    int n = et_cfg.burst ? 8 + (int)vh_below(&c->rng, 8) : 1;
    for (i = 0; i < n; i++) {
      snprintf(sp.name, sizeof(sp.name), "sil%d.ex.test", i);
      sp.cb_sleep_us = et_cfg.slow_cb_us;
      t0             = et_now_ns();
      et_issue(&sp, 0, et_channel, 0);
      et_client_log(c, K_QUERY, t0);
      if (n > 1) {
        et_sleep_us(1000 + (long)vh_below(&c->rng, 2000));
      }
    }
    sp.cb_sleep_us = 0;
  }
  if (et_wait_et_asleep(2000)) {
    atomic_store(&et_timers_asleep_seen, 1);
  }
  if (et_cfg.offset_us) {
    et_sleep_us(et_cfg.offset_us);
  }
  for (i = 0; i < ET_NSRV; i++) {
    atomic_store_explicit(&et_srv_beh[i],
                          et_cfg.srv_sit == ET_SIT_SILENT  ? ET_B_SILENT
                          : et_cfg.srv_sit == ET_SIT_CLOSE ? ET_B_CLOSE
                                                           : ET_B_ANSWER,
                          ET_RELAX);
  }
  snprintf(sp.name, sizeof(sp.name), "p%d.ex.test", (int)vh_below(&c->rng, 100));
  sp.kind = vh_chance(&c->rng, 1, 3) ? K_SEND : K_QUERY;
  if (et_cfg.backoff) {
    snprintf(sp.name, sizeof(sp.name), "silpb.ex.test");
  }
  if (et_cfg.busy_traffic) {
    snprintf(sp.name, sizeof(sp.name), "silbt.ex.test");
    sp.kind = K_QUERY;
  }
  t0      = et_now_ns();
  atomic_store(&et_timers_probe, et_issue(&sp, 0, et_channel, 0));
  et_client_log(c, sp.kind, t0);
  /* no application action from here on: the event thread alone must finish every request */
  if (et_cfg.busy_traffic) {
    int     p  = atomic_load(&et_timers_probe);
    int64_t w1 = et_now_ns();
    while (p >= 0 && atomic_load(&et_reqs[p].cb_count) == 0 && et_now_ns() - w1 < 6000 * 1000000LL) {
      et_sleep_us(500);
    }
    atomic_store(&et_perpetual_stop, 1);
    if (et_flood_started) {
      pthread_join(et_flood_th[0], NULL);
      pthread_join(et_flood_th[1], NULL);
      et_flood_started = 0;
    }
  }
  while (atomic_load(&et_outstanding) > 0 || atomic_load(&et_perp_outstanding) > 0) {
    et_sleep_us(500);
  }
  atomic_fetch_add(&et_clients_done, 1);
  return NULL;
}

/* ---------- one case ---------- */
static void et_reset_state(void)
{
  int i, j;
  memset(et_reqs, 0, sizeof(et_reqs));
  memset(et_waits, 0, sizeof(et_waits));
  memset(et_clients, 0, sizeof(et_clients));
  memset(et_ring, 0, sizeof(et_ring));
  atomic_store(&et_nreq, 0);
  atomic_store(&et_nwaits, 0);
  atomic_store(&et_S, 0);
  atomic_store(&et_destroyed, 0);
  atomic_store(&et_closing, 0);
  atomic_store(&et_outstanding, 0);
  atomic_store(&et_clients_done, 0);
  atomic_store(&et_ring_head, 0);
  atomic_store(&et_main_et_tid, 0);
  atomic_store(&et_main_cur_slot, -1);
  atomic_store(&et_mon_stop, 0);
  atomic_store(&et_resp_stop, 0);
  atomic_store(&et_timers_probe, -1);
  atomic_store(&et_timers_asleep_seen, 0);
  atomic_store(&et_backoff_reached, 0);
  atomic_store(&et_dup_live, 0);
  atomic_store(&et_dup_last_end_ns, 0);
  atomic_store(&et_perpetual_stop, 0);
  atomic_store(&et_perp_outstanding, 0);
  atomic_store(&et_bk_ntx, 0);
  atomic_store(&et_pb_ntx, 0);
  atomic_store(&et_open_lib_socks, 0);
  atomic_store(&et_confchg_seen_gen, 0);
  atomic_store(&et_confchg_changed, 0);
  atomic_store(&et_lib_threads, 0);
  atomic_store(&et_lib_thr_started, 0);
  atomic_store(&et_lib_thr_finished, 0);
  atomic_store(&et_lib_et_alive, 0);
  atomic_store(&et_tramp_next, 0);
  for (i = 0; i < 3; i++) {
    for (j = 0; j < 2; j++) {
      atomic_store(&et_n_waits[i][j], 0);
    }
  }
}

#define ET_CNT(name, var)                                   \
  do {                                                      \
    uint64_t v_ = (uint64_t)atomic_exchange(&(var), 0);     \
    if (v_) {                                               \
      vh_count_n(name, v_);                                 \
    }                                                       \
  } while (0)

/* ---------- is the machine keeping up? ----------
 * The three "late" rules of the timers profile compare wall-clock times with a deadline.  On a machine that does not
 * get round to running a thread that is due, everything is late and none of it is the library's doing.  A thread that
 * does nothing but sleep 5 ms at a time measures how late IT is woken; if that ever exceeds 80 ms during a case, the
 * late rules of that case are not evaluated (counted, and the case is reported inconclusive if a rule would have fired). */
static _Atomic int     et_load_stop;
static _Atomic int64_t et_load_max_late_ns;
static void           *et_load_probe(void *arg)
{
  (void)arg;
  while (!atomic_load(&et_load_stop)) {
    struct timespec ts = { 0, 5 * 1000000L };
    int64_t         t0 = et_now_ns(), late;
    nanosleep(&ts, NULL);
    late = et_now_ns() - t0 - 5 * 1000000LL;
    if (late > atomic_load(&et_load_max_late_ns)) {
      atomic_store(&et_load_max_late_ns, late);
    }
  }
  return NULL;
}
static int et_machine_kept_up(const char *rule)
{
  char nm[96];
  if (atomic_load(&et_load_max_late_ns) <= 80 * 1000000LL) {
    return 1;
  }
  snprintf(nm, sizeof(nm), "timers.%s.late_but_machine_overloaded", rule);
  vh_count(nm);
  return 0;
}

/* ---------- signals for the library's threads ----------
 * A thread inherits the signal mask of its creator.  SIGUSR1 is unblocked in the main thread while it creates the
 * channel (so the event thread, and every thread that one creates, takes the signal) and blocked there - and so in
 * every harness thread started afterwards - before the timer starts: each tick interrupts a wait of a library
 * thread (epoll_wait/poll/select do not restart), everything else restarts (SA_RESTART). */
static timer_t          et_sig_timer;
static int              et_sig_timer_ok, et_sig_running;
static _Atomic uint64_t et_n_signals;
static void et_sig_handler(int sig)
{
  (void)sig;
  atomic_fetch_add_explicit(&et_n_signals, 1, memory_order_relaxed);
}
static void et_signals_prepare(void)
{
  static int       installed;
  sigset_t         ss;
  if (!installed) {
    struct sigaction sa;
    struct sigevent  ev;
    memset(&sa, 0, sizeof(sa));
    sa.sa_handler = et_sig_handler;
    sa.sa_flags   = SA_RESTART;
    sigemptyset(&sa.sa_mask);
    sigaction(SIGUSR1, &sa, NULL);
    memset(&ev, 0, sizeof(ev));
    ev.sigev_notify = SIGEV_SIGNAL;
    ev.sigev_signo  = SIGUSR1;
    et_sig_timer_ok = timer_create(CLOCK_MONOTONIC, &ev, &et_sig_timer) == 0;
    installed       = 1;
  }
  sigemptyset(&ss);
  sigaddset(&ss, SIGUSR1);
  pthread_sigmask(SIG_UNBLOCK, &ss, NULL);
}
static void et_signals_start(void)
{
  struct itimerspec its;
  sigset_t          ss;
  sigemptyset(&ss);
  sigaddset(&ss, SIGUSR1);
  pthread_sigmask(SIG_BLOCK, &ss, NULL);
  if (!et_sig_timer_ok) {
    return;
  }
  memset(&its, 0, sizeof(its));
  its.it_value.tv_nsec    = 37 * 1000000L;
  its.it_interval.tv_nsec = 37 * 1000000L;
  timer_settime(et_sig_timer, 0, &its, NULL);
  et_sig_running = 1;
}
static void et_signals_stop(void)
{
  if (et_sig_running) {
    struct itimerspec its;
    memset(&its, 0, sizeof(its));
    timer_settime(et_sig_timer, 0, &its, NULL);
    et_sig_running = 0;
  }
}

static void et_run_case(const char *profile, uint64_t seed, uint64_t idx)
{
  vh_rng_t            g;
  struct ares_options o;
  int                 optmask, rc, i, j, leaked;
  pthread_t           th_resp, th_mon, th_load;
  char               *doms[2];
  static char         rcpath[200], hpath[200];
  int                 pre_destroy_confchg, nontrivial;
  uint64_t            pairs[K_NCHAN][K_NCHAN];
  uint64_t            npairs_total = 0;
  int                 bk;

  et_case_seed = vh_case_seed(seed, profile, idx);
  vh_rng_seed(&g, et_case_seed);
  et_make_cfg(profile, &g, idx);
  et_reset_state();
  et_cur_idx = idx;
  et_case_t0 = et_now_ns();
  alarm(240); /* last resort; the watchdog thread leaves much earlier */
  vh_case_begin(idx);

  vh_trace("case %llu: profile=%s backend=%d clients=%d ops=%d stayopen=%d usevc=%d tries=%d timeout=%d/%d nsrv=%d "
           "from_file=%d reinit_mode=%d reload_vs_destroy=%d inject=%d destroy_outstanding=%d conn=%d srv=%d burst=%d",
           (unsigned long long)idx, profile, et_cfg.backend, et_cfg.nclients, et_cfg.nops, et_cfg.stayopen,
           et_cfg.usevc, et_cfg.tries, et_cfg.timeout_ms, et_cfg.maxtimeout_ms, et_cfg.nsrv,
           et_cfg.servers_from_resolvconf, et_cfg.reinit_mode, et_cfg.reload_vs_destroy, et_cfg.inj_density,
           et_cfg.destroy_outstanding, et_cfg.conn_sit, et_cfg.srv_sit, et_cfg.burst);
  et_setup_scratch();
  atomic_store(&et_inj_seed, et_case_seed ^ 0x5eed);
  atomic_store(&et_inj_density, 0);
  atomic_store(&et_tcp_einprogress, et_cfg.einprogress);
  atomic_store(&et_allow_tfo, et_cfg.tfo);
  for (i = 0; i < ET_NSRV; i++) {
    atomic_store(&et_srv_beh[i], et_cfg.profile == ET_P_TIMERS ? ET_B_ANSWER : et_cfg.beh[i]);
    atomic_store(&et_srv_delay_ms[i], et_cfg.delay_ms[i]);
  }
  if (pipe2(et_resp_wake, O_NONBLOCK | O_CLOEXEC) != 0) {
    vh_inconclusive("pipe");
    return;
  }

  memset(&o, 0, sizeof(o));
  snprintf(rcpath, sizeof(rcpath), "%s/resolv.conf", et_scratch_dir);
  snprintf(hpath, sizeof(hpath), "%s/hosts", et_scratch_dir);
  doms[0]           = (char *)et_domains[0];
  doms[1]           = (char *)et_domains[1];
  o.flags           = (et_cfg.stayopen ? ARES_FLAG_STAYOPEN : 0) | (et_cfg.usevc ? ARES_FLAG_USEVC : 0) |
            (et_cfg.igntc ? ARES_FLAG_IGNTC : 0) | ARES_FLAG_EDNS;
  o.timeout         = et_cfg.timeout_ms;
  o.tries           = et_cfg.tries;
  o.maxtimeout      = et_cfg.maxtimeout_ms;
  o.ndots           = 1;
  o.domains         = doms;
  o.ndomains        = 2;
  o.lookups         = (char *)((const char *[]){ "b", "bf", "fb" }[et_cfg.lookups]);
  o.resolvconf_path = rcpath;
  o.hosts_path      = hpath;
  o.udp_max_queries = et_cfg.udp_max_queries;
  o.qcache_max_ttl  = et_cfg.qcache ? 60 : 0;
  o.evsys           = (ares_evsys_t[]){ ARES_EVSYS_DEFAULT, ARES_EVSYS_EPOLL, ARES_EVSYS_POLL,
                                        ARES_EVSYS_SELECT }[et_cfg.backend];
  optmask = ARES_OPT_FLAGS | ARES_OPT_TIMEOUTMS | ARES_OPT_TRIES | ARES_OPT_MAXTIMEOUTMS | ARES_OPT_NDOTS |
            ARES_OPT_DOMAINS | ARES_OPT_LOOKUPS | ARES_OPT_RESOLVCONF | ARES_OPT_HOSTS_FILE |
            ARES_OPT_UDP_MAX_QUERIES | ARES_OPT_QUERY_CACHE | ARES_OPT_EVENT_THREAD |
            (et_cfg.rotate ? ARES_OPT_ROTATE : ARES_OPT_NOROTATE);

  et_signals_prepare();
  ares_library_init(ARES_LIB_INIT_ALL);
  if (!ares_threadsafety()) {
    vh_inconclusive("not-threadsafe-build");
    return;
  }
  et_channel = NULL;
  rc         = ares_init_options(&et_channel, &o, optmask);
  if (rc != ARES_SUCCESS || et_channel == NULL) {
    vh_inconclusive("init-failed");
    ares_library_cleanup();
    et_cleanup_scratch();
    return;
  }
  et_sockfuncs_var       = et_sockfuncs;
  et_sockfuncs_var.flags = et_cfg.nbflag ? ARES_SOCKFUNC_FLAG_NONBLOCKING : 0;
  rc = (int)ares_set_socket_functions_ex(et_channel, &et_sockfuncs_var, NULL);
  if (rc != ARES_SUCCESS) {
    vh_violation("api:et:set_socket_functions_ex-refused", "status %d on an event-thread channel", rc);
  }
  if (!et_cfg.servers_from_resolvconf) {
    ares_set_servers_ports_csv(et_channel, et_cfg.nsrv >= 3   ? "10.0.0.1:53,10.0.0.2:5353,[fd00::1]:53"
                                           : et_cfg.nsrv == 2 ? "10.0.0.1:53,10.0.0.2:5353"
                                                              : "10.0.0.1:53");
  }

  if (et_cfg.signals) {
    et_signals_start();
  }
  atomic_store(&et_load_stop, 0);
  atomic_store(&et_load_max_late_ns, 0);
  __real_pthread_create(&th_load, NULL, et_load_probe, NULL);
  __real_pthread_create(&th_resp, NULL, et_responder, NULL);
  {
    /* the first library thread that sleeps is the event thread of the channel under test */
    int64_t t0 = et_now_ns();
    while (atomic_load(&et_main_et_tid) == 0 && et_now_ns() - t0 < 3000000000LL) {
      et_sleep_us(100);
    }
  }
  __real_pthread_create(&th_mon, NULL, et_monitor, NULL);
  atomic_store(&et_inj_density, et_cfg.inj_density);

  pthread_barrier_init(&et_start_bar, NULL, (unsigned)et_cfg.nclients + 1);
  pthread_barrier_init(&et_q_bar, NULL, (unsigned)et_cfg.nclients);
  for (i = 0; i < et_cfg.nclients; i++) {
    et_clients[i].id = i;
    vh_rng_seed(&et_clients[i].rng, et_case_seed ^ (0x1000 + (uint64_t)i) * 0x9e3779b97f4a7c15ULL);
    __real_pthread_create(&et_clients[i].th, NULL, et_cfg.profile == ET_P_TIMERS ? et_client_timers : et_client_stress,
                   &et_clients[i]);
  }
  pthread_barrier_wait(&et_start_bar);
  for (i = 0; i < et_cfg.nclients; i++) {
    pthread_join(et_clients[i].th, NULL);
  }
  pthread_barrier_destroy(&et_start_bar);
  pthread_barrier_destroy(&et_q_bar);

  /* closing phase */
  pre_destroy_confchg = et_cfg.profile == ET_P_STRESS && et_cfg.reload_vs_destroy;
  if (!et_cfg.destroy_outstanding) {
    while (atomic_load(&et_outstanding) > 0) {
      et_sleep_us(500); /* bounded by the watchdog (deadline / hang / hard limit) */
    }
  }
  if (pre_destroy_confchg) {
    /* a configuration change right before destruction: destroy must stop the watcher and join the reload */
    et_write_resolvconf(ET_MAX_CLIENTS, (int)vh_below(&g, 8), vh_chance(&g, 1, 3));
    if (vh_chance(&g, 2, 3)) {
      et_sleep_us((long)vh_below(&g, 2500));
    }
    vh_count("configchg.rewrite_before_destroy");
  }
  else {
    /* ordinary runs: let a reload that is still in flight finish first (destroy racing a reload has its own
     * sub-workload above) */
    int64_t t0 = et_now_ns();
    int     calm = 0;
    while (calm < 2 && et_now_ns() - t0 < 3000000000LL) {
      int slot = atomic_load(&et_main_cur_slot);
      /* calm = no reload thread alive and the event thread asleep for >= 1 ms (a change notification that was
       * pending would have woken it at once) */
      if (et_reloads_in_flight() == 0 && slot >= 0 && atomic_load(&et_ring[slot].t_exit) == 0 &&
          et_now_ns() - atomic_load(&et_ring[slot].t_enter) > 1000000) {
        calm++;
      } else {
        calm = 0;
      }
      et_sleep_us(500);
    }
    if (calm < 2) {
      vh_count("destroy.reload_possibly_in_flight");
    }
  }
  atomic_store(&et_closing, 1);
  {
    int out_at_destroy = atomic_load(&et_outstanding);
    if (out_at_destroy > 0) {
      vh_count("destroy.with_outstanding");
      vh_count_n("destroy.outstanding_requests", (uint64_t)out_at_destroy);
    }
  }
  ares_destroy(et_channel);
  atomic_store(&et_destroyed, 1);
  (void)et_seq();
  et_sleep_us(5000); /* anything that still calls back now does so after destroy returned */
  ares_library_cleanup();
  atomic_store_explicit(&et_mon_stop, 1, memory_order_release);
  pthread_join(th_mon, NULL);
  atomic_store_explicit(&et_resp_stop, 1, memory_order_release);
  et_resp_poke();
  pthread_join(th_resp, NULL);
  atomic_store(&et_inj_density, 0);
  leaked = et_net_reset();
  close(et_resp_wake[0]);
  close(et_resp_wake[1]);
  et_resp_wake[0] = et_resp_wake[1] = -1;
  alarm(0);
  et_signals_stop();
  atomic_store(&et_load_stop, 1);
  pthread_join(th_load, NULL);
  vh_count_n("timers.load_probe.sum_of_case_max_late_ms", (uint64_t)(atomic_load(&et_load_max_late_ns) / 1000000));

  /* ---------- monitors ---------- */
  {
    int n = atomic_load(&et_nreq), nw = atomic_load(&et_nwaits);
    if (atomic_load(&et_req_overflow)) {
      vh_count("harness.request_table_full");
    }
    for (i = 0; i < n; i++) {
      et_req_t *r  = &et_reqs[i];
      int       cc = atomic_load(&r->cb_count);
      vh_count("monitor.once.evaluated");
      if (cc == 0) {
        vh_violation("once:et:no-callback", "request #%d (%s, issuer %d%s) never got its callback although "
                     "ares_destroy() has returned", i, et_kind_name[atomic_load(&r->kind)], atomic_load(&r->issuer),
                     atomic_load(&r->on_dup) ? ", on a duplicate channel" : "");
      } else if (cc > 1) {
        vh_violation("once:et:double-callback", "request #%d (%s, issuer %d) got %d callbacks (first status %d)", i,
                     et_kind_name[atomic_load(&r->kind)], atomic_load(&r->issuer), cc, atomic_load(&r->cb_status));
      }
      if (atomic_load(&r->cb_late)) {
        vh_violation("once:et:callback-after-destroy", "request #%d (%s) was called back after ares_destroy() had "
                     "returned", i, et_kind_name[atomic_load(&r->kind)]);
      }
    }
    if (et_cfg.backoff) {
      /* A request issued from an application thread while the event thread sleeps against a far deadline must
       * still be retried after ITS OWN timeout (first attempt: timeout_ms, no jitter).  Observed at the server:
       * gap between the first two transmissions of the probe.  Slack 300 ms; a late gap is confirmed by
       * running the case a second time before it is reported (a loaded machine can delay one wake-up). */
      int ntx = atomic_load(&et_pb_ntx);
      if (!atomic_load(&et_backoff_reached) || !atomic_load(&et_timers_asleep_seen)) {
        vh_count("timers.backoff.not_reached");
      } else if (ntx < 2) {
        vh_count("timers.backoff.probe_sent_once");
      } else {
        double gap = (double)(atomic_load(&et_pb_tx_ns[1]) - atomic_load(&et_pb_tx_ns[0])) / 1e6;
        vh_count("timers.backoff.retry_gap_evaluated");
        if (gap > et_cfg.timeout_ms + 300 && et_machine_kept_up("backoff")) {
          if (et_backoff_confirming) {
            vh_violation("timer:et:retry-late:busy-backoff",
                         "a request issued while the event thread slept against the deadline of an older query in "
                         "its 4th attempt (800..1600 ms away) was retransmitted %.0f ms after its first "
                         "transmission, its timeout is %d ms (seen in two consecutive runs of the case); backend=%s",
                         gap, et_cfg.timeout_ms, et_backend_name[et_cfg.backend == 0 ? 0 : et_cfg.backend - 1]);
          } else {
            et_backoff_need_confirm = 1;
            vh_count("timers.backoff.late_once_rerun");
          }
        }
      }
    }
    if (et_cfg.busy_traffic) {
      /* the unanswered request has one try of 250 ms; the answers streaming in for the other requests must not
       * keep its timeout from being noticed.  Slack 2 s (a timeout that is not noticed at all while traffic lasts shows
       * as 6 s; 400 ms was exceeded by 27 ms in the thread-sanitizer build with sixteen cases side by side), confirmed
       * by a second run */
      int p = atomic_load(&et_timers_probe);
      vh_count_n("timers.busy_traffic.requests_reissued_from_callbacks", atomic_exchange(&et_perpetual_issued, 0));
      if (p >= 0) {
        double took = atomic_load(&et_reqs[p].cb_count) > 0
                        ? (double)(atomic_load(&et_reqs[p].t_cb) - atomic_load(&et_reqs[p].t_issue)) / 1e6
                        : 6000.0;
        vh_count("timers.busy_traffic.evaluated");
        if (took > et_cfg.timeout_ms + 2000 && et_machine_kept_up("busy_traffic")) {
          if (et_backoff_confirming) {
            vh_violation("timer:et:timeout-late:busy-traffic",
                         "a request to a silent server (1 try, %d ms) was failed %.0f ms after it was issued%s while the event thread was "
                         "kept busy by answers to other requests (seen in two consecutive runs of the case); backend=%s",
                         et_cfg.timeout_ms, took, atomic_load(&et_reqs[p].cb_count) > 0 ? "" : " (at the earliest: traffic was stopped then)",
                         et_backend_name[et_cfg.backend == 0 ? 0 : et_cfg.backend - 1]);
          } else {
            et_backoff_need_confirm = 1;
            vh_count("timers.busy_traffic.late_once_rerun");
          }
        }
      }
    }
    if (et_cfg.long_timeout) {
      /* nothing ever arrives: the request must end by its own timeouts, tries x timeout after it was issued
       * (maxtimeout = timeout, so there is no back-off); slack 800 ms (an oversleeping back end is a whole second
       * late per try), confirmed by a second run */
      int p = atomic_load(&et_timers_probe);
      if (p >= 0 && atomic_load(&et_reqs[p].cb_count) > 0) {
        double took   = (double)(atomic_load(&et_reqs[p].t_cb) - atomic_load(&et_reqs[p].t_issue)) / 1e6;
        double budget = (double)et_cfg.tries * et_cfg.timeout_ms;
        vh_count("timers.long_timeout.evaluated");
        if (took > budget + 800 && et_machine_kept_up("long_timeout")) {
          if (et_backoff_confirming) {
            vh_violation("timer:et:timeout-late:long-timeout",
                         "a request to a silent server (tries %d x timeout %d ms, no back-off) was failed %.0f ms after it "
                         "was issued, %.0f ms late (seen in two consecutive runs of the case); backend=%s",
                         et_cfg.tries, et_cfg.timeout_ms, took, took - budget,
                         et_backend_name[et_cfg.backend == 0 ? 0 : et_cfg.backend - 1]);
          } else {
            et_backoff_need_confirm = 1;
            vh_count("timers.long_timeout.late_once_rerun");
          }
        }
      }
    }
    for (j = 0; j < nw; j++) {
      et_waitrec_t *w  = &et_waits[j];
      uint64_t      t1 = atomic_load(&w->t1), t2 = atomic_load(&w->t2);
      int           st = atomic_load(&w->status);
      vh_count(st == ARES_SUCCESS ? "wait_empty.success" : st == ARES_ETIMEOUT ? "wait_empty.timeout"
                                                                                 : "wait_empty.other");
      if (atomic_load(&w->timeout_ms) < 0) {
        vh_count("wait_empty.infinite");
      }
      if (t2 == 0 || st != ARES_SUCCESS) {
        continue;
      }
      vh_count("monitor.wait.evaluated");
      for (i = 0; i < n; i++) {
        et_req_t *r  = &et_reqs[i];
        uint64_t  sr = atomic_load(&r->s_ret), sc = atomic_load(&r->s_cb);
        if (atomic_load(&r->on_dup) || sr == 0 || sr >= t1) {
          continue;
        }
        if (atomic_load(&r->cb_count) == 0 || sc > t2) {
          vh_violation("wait:et:success-with-outstanding",
                       "ares_queue_wait_empty(%d) called at S=%llu returned ARES_SUCCESS at S=%llu, but request #%d "
                       "(%s, issuer %d) whose issuing call had returned at S=%llu was called back at S=%llu (0 = "
                       "never)", atomic_load(&w->timeout_ms), (unsigned long long)t1, (unsigned long long)t2, i,
                       et_kind_name[atomic_load(&r->kind)], atomic_load(&r->issuer), (unsigned long long)sr,
                       (unsigned long long)sc);
          break;
        }
      }
      if (atomic_load(&w->quiesced)) {
        vh_count("monitor.wait.quiesced_evaluated");
        if (atomic_load(&w->active_after) > 0) {
          vh_violation("wait:et:quiesced-nonempty", "all issuers parked, ares_queue_wait_empty(-1) returned "
                       "ARES_SUCCESS but ares_queue_active_queries() right after says %d",
                       atomic_load(&w->active_after));
        }
      }
    }
    /* completion times (informational; the deadline verdicts are taken by the watchdog while the run lives) */
    for (i = 0; i < n; i++) {
      et_req_t *r = &et_reqs[i];
      int64_t   tc = atomic_load(&r->t_cb), ti = atomic_load(&r->t_issue);
      if (tc && ti && !atomic_load(&r->on_dup) && atomic_load(&r->cb_status) != ARES_EDESTRUCTION) {
        vh_count("monitor.deadline.evaluated");
        if (tc > atomic_load(&r->deadline)) {
          vh_count("monitor.deadline.late_but_completed");
        }
      }
    }
  }

  /* ---------- what was observed ---------- */
  memset(pairs, 0, sizeof(pairs));
  for (i = 0; i < et_cfg.nclients; i++) {
    int a;
    for (a = 0; a < et_clients[i].nlog; a++) {
      const et_oprec_t *x = &et_clients[i].log[a];
      int               k;
      if (x->kind >= K_NCHAN) {
        continue;
      }
      for (j = i + 1; j < et_cfg.nclients; j++) {
        for (k = 0; k < et_clients[j].nlog; k++) {
          const et_oprec_t *y = &et_clients[j].log[k];
          if (y->kind >= K_NCHAN) {
            continue;
          }
          if (x->t_call < y->t_ret && y->t_call < x->t_ret) {
            int lo = x->kind < y->kind ? x->kind : y->kind, hi = x->kind < y->kind ? y->kind : x->kind;
            pairs[lo][hi]++;
            npairs_total++;
          }
        }
      }
    }
  }
  bk         = et_cfg.backend == 0 ? 0 : et_cfg.backend - 1;
  nontrivial = et_cfg.profile == ET_P_STRESS ? (et_cfg.nclients >= 2 && npairs_total > 0)
                                             : (atomic_load(&et_timers_probe) >= 0);
  {
    char nm[96];
    for (i = 0; i < K_N; i++) {
      uint64_t t = 0;
      for (j = 0; j < et_cfg.nclients; j++) {
        t += et_clients[j].nops_by_kind[i];
      }
      if (t) {
        snprintf(nm, sizeof(nm), "op.%s", et_kind_name[i]);
        vh_count_n(nm, t);
      }
    }
    for (i = 0; i < K_NCHAN; i++) {
      for (j = i; j < K_NCHAN; j++) {
        if (pairs[i][j]) {
          snprintf(nm, sizeof(nm), "overlap.%s+%s", et_kind_name[i], et_kind_name[j]);
          vh_count_n(nm, pairs[i][j]);
          if (nontrivial && et_cfg.profile == ET_P_STRESS) {
            vh_fp_add(vh_fnv_u64(vh_fnv_u64(vh_fnv_u64(VH_FNV_INIT, (uint64_t)i), (uint64_t)j), (uint64_t)bk));
          }
        }
      }
    }
    vh_count_n("overlap.pairs_total", npairs_total);
    if (et_cfg.profile == ET_P_TIMERS && nontrivial) {
      vh_fp_add(vh_fnv_u64(vh_fnv_u64(vh_fnv_u64(vh_fnv_u64(vh_fnv_str(VH_FNV_INIT, "timers"), (uint64_t)bk),
                                                 (uint64_t)et_cfg.conn_sit), (uint64_t)et_cfg.srv_sit),
                           (uint64_t)(et_cfg.usevc * 2 + et_cfg.burst + et_cfg.backoff * 4 + et_cfg.long_timeout * 8 + et_cfg.busy_traffic * 16)));
      snprintf(nm, sizeof(nm), "timers.case.%s.%s.%s", et_backend_name[bk], et_conn_name[et_cfg.conn_sit],
               et_sit_name[et_cfg.srv_sit]);
      vh_count(nm);
      if (atomic_load(&et_timers_asleep_seen)) {
        vh_count("timers.probe_issued_while_event_thread_asleep");
      }
    }
    vh_count(nontrivial ? "case.nontrivial" : "case.trivial");
    snprintf(nm, sizeof(nm), "case.backend.%s", et_cfg.backend == 0 ? "default" : et_backend_name[bk]);
    vh_count(nm);
    snprintf(nm, sizeof(nm), "case.clients.%d", et_cfg.nclients);
    vh_count(nm);
    for (i = 0; i < 3; i++) {
      snprintf(nm, sizeof(nm), "et_wait.%s.infinite", et_backend_name[i]);
      ET_CNT(nm, et_n_waits[i][0]);
      snprintf(nm, sizeof(nm), "et_wait.%s.finite", et_backend_name[i]);
      ET_CNT(nm, et_n_waits[i][1]);
    }
    for (i = 0; i < ET_STATUS_MAX; i++) {
      if (atomic_load(&et_cb_by_status[i])) {
        snprintf(nm, sizeof(nm), "callback.status.%s", ares_strerror(i));
        for (j = 0; nm[j]; j++) {
          if (nm[j] == ' ') {
            nm[j] = '_';
          }
        }
        ET_CNT(nm, et_cb_by_status[i]);
      }
    }
    for (i = 0; i < ET_B_N; i++) {
      snprintf(nm, sizeof(nm), "responder.%s", et_beh_name[i]);
      ET_CNT(nm, et_n_tx_beh[i]);
    }
  }
  ET_CNT("et_wait.woken_by_event", et_n_wake_events);
  ET_CNT("et_wait.ran_into_timeout", et_n_wake_timeout);
  ET_CNT("et_wait.other_event_threads", et_n_other_et_waits);
  ET_CNT("signals.delivered_to_library_threads", et_n_signals);
  if (et_cfg.signals) {
    vh_count("case.with_signals");
  }
  ET_CNT("monitor.lock_balance.evaluated", et_n_lockbal_eval);
  ET_CNT("monitor.readable_socket.seen", et_n_readable_seen);
  ET_CNT("monitor.readable_socket.judged_after_200ms", et_n_readable_judged);
  ET_CNT("monitor.readable_socket.tick_late_observation_restarted", et_n_readable_overload);
  ET_CNT("op.refused_by_library", et_n_refused);
  ET_CNT("lock.acquisitions", et_n_lock);
  ET_CNT("lock.contended", et_n_contended);
  ET_CNT("lock.contended.library_thread", et_contended_by_role[0]);
  ET_CNT("lock.contended.client_thread", et_contended_by_role[1]);
  ET_CNT("inject.yield", et_n_inj_yield);
  ET_CNT("inject.sleep", et_n_inj_sleep);
  ET_CNT("cond.wait", et_n_condwait);
  ET_CNT("cond.timedwait", et_n_condtimedwait);
  ET_CNT("cond.signal", et_n_condsignal);
  ET_CNT("cond.broadcast", et_n_condbroadcast);
  ET_CNT("callback.total", et_cb_total);
  ET_CNT("callback.on_library_thread", et_cb_on_lib);
  ET_CNT("callback.issued_new_request", et_cb_chained);
  ET_CNT("callback.cancelled_all_then_issued_new_request", et_cb_cancel_then_chain);
  ET_CNT("callback.after_destroy", et_cb_late_total);
  ET_CNT("configchg_rewrites", et_n_confchg_rewrites);
  ET_CNT("configchg_rewrites_inplace", et_n_confchg_inplace);
  ET_CNT("configchg_hosts_rewrites", et_n_hosts_rewrites);
  ET_CNT("configchg_reloads_observed", et_n_confchg_observed);
  ET_CNT("configchg.inotify_redirected", et_inotify_redirects);
  if ((et_cfg.reinit_mode == 3 || et_cfg.reinit_mode == 0) && atomic_load(&et_n_reload_threads)) {
    /* nobody calls ares_reinit() in this run: every reload thread was started by the change monitor */
    vh_count_n("configchg_reloads_observed", atomic_load(&et_n_reload_threads));
  }
  ET_CNT("reload_threads_run", et_n_reload_threads);
  ET_CNT("net.socket.udp", et_n_sock_udp);
  ET_CNT("net.socket.tcp", et_n_sock_tcp);
  ET_CNT("net.socket.closed_by_library", et_n_sock_close);
  ET_CNT("net.socket.not_to_a_server", et_n_sock_other);
  ET_CNT("net.query.udp", et_n_rx_udp);
  ET_CNT("net.query.tcp", et_n_rx_tcp);
  ET_CNT("net.nxdomain", et_n_tx_nx);
  ET_CNT("net.peer_closed_by_server", et_n_peer_closed);
  ET_CNT("net.delayed_reply_dropped", et_n_pending_dropped);
  if (leaked) {
    vh_count_n("net.descriptors_left_open_after_destroy", (uint64_t)leaked);
  }
  vh_count_n("requests.started", (uint64_t)atomic_load(&et_nreq));
  vh_count_n("tsan.reports", (uint64_t)atomic_load(&et_tsan_reports));
  {
    uint64_t rf = 0;
    for (i = 0; i < et_cfg.nclients; i++) {
      rf += (uint64_t)et_clients[i].reinit_fail;
    }
    if (rf) {
      vh_count_n("reinit.failed", rf);
    }
  }
  if (et_cfg.stayopen) {
    vh_count("case.stayopen");
  }
  if (et_cfg.servers_from_resolvconf) {
    vh_count("case.servers_from_file");
  }
  {
    char nm[64];
    snprintf(nm, sizeof(nm), "case.reinit_mode.%d", et_cfg.reinit_mode);
    vh_count(nm);
    snprintf(nm, sizeof(nm), "case.inject_density.%d", et_cfg.inj_density);
    vh_count(nm);
  }
  if (vh_want_sample() && nontrivial) {
    vh_sb_t sb = { 0 };
    vh_sb_printf(&sb,
                 "{\"profile\":\"%s\",\"seed\":%llu,\"idx\":%llu,\"backend\":\"%s\",\"clients\":%d,\"ops_per_client\":%d,"
                 "\"stayopen\":%d,\"usevc\":%d,\"udp_max_queries\":%d,\"tries\":%d,\"timeout_ms\":%d,\"maxtimeout_ms\":%d,"
                 "\"servers\":%d,\"servers_from_file\":%d,\"reinit_mode\":%d,\"inject_permille\":%d,"
                 "\"destroy_with_outstanding\":%d,\"requests\":%d,\"wait_empty_calls\":%d,\"overlapping_pairs\":%llu",
                 profile, (unsigned long long)seed, (unsigned long long)idx,
                 et_cfg.backend == 0 ? "default" : et_backend_name[bk], et_cfg.nclients, et_cfg.nops, et_cfg.stayopen,
                 et_cfg.usevc, et_cfg.udp_max_queries, et_cfg.tries, et_cfg.timeout_ms, et_cfg.maxtimeout_ms,
                 et_cfg.nsrv, et_cfg.servers_from_resolvconf, et_cfg.reinit_mode, et_cfg.inj_density,
                 et_cfg.destroy_outstanding, atomic_load(&et_nreq), atomic_load(&et_nwaits),
                 (unsigned long long)npairs_total);
    if (et_cfg.profile == ET_P_TIMERS) {
      int p = atomic_load(&et_timers_probe);
      vh_sb_printf(&sb, ",\"connection\":\"%s\",\"server\":\"%s\",\"offset_us\":%d,\"burst\":%d,"
                   "\"idle_after_timeout\":%d,\"older_query_backed_off\":%d",
                   et_conn_name[et_cfg.conn_sit], et_sit_name[et_cfg.srv_sit], et_cfg.offset_us, et_cfg.burst,
                   et_cfg.idle_after_timeout, et_cfg.backoff);
      if (p >= 0) {
        vh_sb_printf(&sb, ",\"probe_status\":\"%s\",\"probe_ms\":%.1f",
                     ares_strerror(atomic_load(&et_reqs[p].cb_status)),
                     (double)(atomic_load(&et_reqs[p].t_cb) - atomic_load(&et_reqs[p].t_issue)) / 1e6);
      }
    }
    vh_sb_printf(&sb, "}");
    vh_sample(sb.b);
    free(sb.b);
  }
  et_cleanup_scratch();
  et_channel = NULL;
}

int main(int argc, char **argv)
{
  vh_args_t a;
  uint64_t  i;
  vh_parse_args(&a, argc, argv);
  et_role = ET_ROLE_MAIN;
  signal(SIGPIPE, SIG_IGN);
  unsetenv("RES_OPTIONS");
  unsetenv("LOCALDOMAIN");
  unsetenv("HOSTALIASES");
  unsetenv("CARES_HOSTS");
  et_opt_stayopen    = (int)vh_opt_int(&a, "stayopen", 1);
  et_opt_conc_reinit = (int)vh_opt_int(&a, "conc_reinit", 1);
  et_opt_reload_destroy = (int)vh_opt_int(&a, "reload_destroy", 1);
  et_opt_saveopt        = (int)vh_opt_int(&a, "saveopt", 1);
  if (strcmp(a.profile, "stress") != 0 && strcmp(a.profile, "timers") != 0) {
    fprintf(stderr, "unknown profile %s\n", a.profile);
    return 2;
  }
  for (i = 0; i < a.count; i++) {
    et_run_case(a.profile, a.seed, a.first + i);
    if (et_backoff_need_confirm) {
      et_backoff_need_confirm = 0;
      et_backoff_confirming   = 1;
      et_run_case(a.profile, a.seed, a.first + i);
      et_backoff_confirming   = 0;
      et_backoff_need_confirm = 0;
    }
  }
  vh_chunk_end();
  return 0;
}
