/* et_wrap.h - link-time wraps used by the etstress engine (E5).
 *
 *  -Wl,--wrap=pthread_mutex_lock,--wrap=pthread_mutex_unlock          schedule diversification + contention
 *  -Wl,--wrap=pthread_cond_wait,--wrap=pthread_cond_timedwait,
 *      --wrap=pthread_cond_signal,--wrap=pthread_cond_broadcast       counting only (a lock is held there)
 *  -Wl,--wrap=epoll_wait,--wrap=poll,--wrap=select                    observation of the event thread's sleeps
 *  -Wl,--wrap=inotify_add_watch                                       "/etc" -> the case's scratch directory
 *  -Wl,--wrap=pthread_create                                          counts the threads the LIBRARY starts (the
 *                                                                     harness calls __real_pthread_create itself)
 *
 * The __real_ symbols resolve to libtsan's interceptors (libtsan precedes libc in the link), so TSan's
 * view of synchronisation is unchanged; the wrappers only add sched_yield()/nanosleep() between critical
 * sections (never while the calling thread holds a wrapped mutex) and relaxed-atomic bookkeeping.
 * pthread_mutex_trylock() is deliberately NOT used to detect contention: TSan's deadlock detector adds no
 * lock-order edges for try-locks, so a try-first wrapper would blind the lock-order-inversion monitor.
 * Contention is sampled by an uninstrumented peek at the glibc mutex word instead. */
#ifndef ET_WRAP_H
#define ET_WRAP_H

#include <pthread.h>
#include <sched.h>
#include <time.h>
#include <errno.h>
#include <stdint.h>
#include <string.h>
#include <stdatomic.h>
#include <unistd.h>
#include <poll.h>
#include <sys/epoll.h>
#include <sys/select.h>
#include <sys/syscall.h>
#include <sys/inotify.h>

int __real_pthread_mutex_lock(pthread_mutex_t *m);
int __real_pthread_mutex_unlock(pthread_mutex_t *m);
int __real_pthread_cond_wait(pthread_cond_t *c, pthread_mutex_t *m);
int __real_pthread_cond_timedwait(pthread_cond_t *c, pthread_mutex_t *m, const struct timespec *ts);
int __real_pthread_cond_signal(pthread_cond_t *c);
int __real_pthread_cond_broadcast(pthread_cond_t *c);
int __real_epoll_wait(int epfd, struct epoll_event *ev, int maxev, int timeout);
int __real_poll(struct pollfd *fds, nfds_t n, int timeout);
int __real_select(int nfds, fd_set *r, fd_set *w, fd_set *e, struct timeval *tv);
int __real_inotify_add_watch(int fd, const char *path, uint32_t mask);
int __real_pthread_create(pthread_t *t, const pthread_attr_t *a, void *(*fn)(void *), void *arg);

/* ---- roles (thread-local); library-created threads keep role 0 ---- */
enum { ET_ROLE_LIB = 0, ET_ROLE_MAIN = 1, ET_ROLE_RESP = 2, ET_ROLE_MON = 3, ET_ROLE_CLIENT0 = 16 };
static __thread int      et_role;
static __thread int      et_tid_cache;
static __thread int      et_depth;     /* wrapped mutexes currently held by this thread */
static __thread uint64_t et_inj_state; /* per-thread injection stream */

static inline int et_gettid(void)
{
  if (!et_tid_cache) {
    et_tid_cache = (int)syscall(SYS_gettid);
  }
  return et_tid_cache;
}

static inline int64_t et_now_ns(void)
{
  struct timespec ts;
  clock_gettime(CLOCK_MONOTONIC, &ts);
  return (int64_t)ts.tv_sec * 1000000000LL + ts.tv_nsec;
}

static inline void et_sleep_us(long us)
{
  struct timespec ts;
  ts.tv_sec  = us / 1000000;
  ts.tv_nsec = (us % 1000000) * 1000;
  while (nanosleep(&ts, &ts) != 0 && errno == EINTR) {
  }
}

/* ---- counters (relaxed atomics) ---- */
static _Atomic uint64_t et_n_lock, et_n_contended, et_n_inj_yield, et_n_inj_sleep;
static _Atomic uint64_t et_n_condwait, et_n_condtimedwait, et_n_condsignal, et_n_condbroadcast;
static _Atomic uint64_t et_progress; /* bumped by anything that shows the run is moving */
static _Atomic int      et_inj_density; /* per-mille of lock/unlock boundaries that get a yield/sleep */
static _Atomic uint64_t et_inj_seed;
static _Atomic int      et_lib_threads;
static _Atomic int      et_contended_by_role[2]; /* [0] library threads, [1] client threads */

#define ET_RELAX memory_order_relaxed

static inline uint64_t et_xs(uint64_t *s)
{
  uint64_t x = *s;
  x ^= x << 13;
  x ^= x >> 7;
  x ^= x << 17;
  *s = x;
  return x;
}

static void et_inject(void)
{
  int      d = atomic_load_explicit(&et_inj_density, ET_RELAX);
  uint64_t x;
  if (d == 0 || et_depth > 0) {
    return;
  }
  if (et_inj_state == 0) {
    uint64_t id = et_role ? (uint64_t)et_role
                          : 1000 + (uint64_t)atomic_fetch_add_explicit(&et_lib_threads, 1, ET_RELAX);
    et_inj_state = (atomic_load_explicit(&et_inj_seed, ET_RELAX) ^ (id * 0x9e3779b97f4a7c15ULL)) | 1;
  }
  x = et_xs(&et_inj_state);
  if ((int)(x % 1000) >= d) {
    return;
  }
  if (((x >> 24) & 7) == 0) {
    atomic_fetch_add_explicit(&et_n_inj_sleep, 1, ET_RELAX);
    et_sleep_us(20 + (long)((x >> 32) % 180));
  } else {
    atomic_fetch_add_explicit(&et_n_inj_yield, 1, ET_RELAX);
    sched_yield();
  }
}

/* ---- threads started by the library (event threads, configuration-reload threads) ---- */
static __thread int     et_is_event_thread;
static _Atomic int      et_lib_thr_started, et_lib_thr_finished, et_lib_et_alive;
static _Atomic uint64_t et_n_reload_threads; /* library threads that finished without ever sleeping in a wait */

typedef struct {
  void *(*fn)(void *);
  void *arg;
} et_tramp_t;
static et_tramp_t  et_tramp_pool[512];
static _Atomic int et_tramp_next;

static void *et_tramp(void *box)
{
  et_tramp_t t = *(et_tramp_t *)box;
  void      *rv;
  et_role = ET_ROLE_LIB;
  rv      = t.fn(t.arg);
  if (et_is_event_thread) {
    atomic_fetch_sub(&et_lib_et_alive, 1);
  } else {
    atomic_fetch_add_explicit(&et_n_reload_threads, 1, ET_RELAX);
  }
  atomic_fetch_add(&et_lib_thr_finished, 1);
  atomic_fetch_add_explicit(&et_progress, 1, ET_RELAX);
  return rv;
}

int __wrap_pthread_create(pthread_t *t, const pthread_attr_t *a, void *(*fn)(void *), void *arg)
{
  int i = atomic_fetch_add(&et_tramp_next, 1);
  int rc;
  if (i >= 512) {
    return __real_pthread_create(t, a, fn, arg);
  }
  et_tramp_pool[i].fn  = fn;
  et_tramp_pool[i].arg = arg;
  atomic_fetch_add(&et_lib_thr_started, 1);
  rc = __real_pthread_create(t, a, et_tramp, &et_tramp_pool[i]);
  if (rc != 0) {
    atomic_fetch_sub(&et_lib_thr_started, 1);
  }
  return rc;
}

/* library threads that are neither finished nor known event threads: reload threads in flight (a thread that
 * has just been started and has not reached its first wait yet counts too: conservative) */
static inline int et_reloads_in_flight(void)
{
  return atomic_load(&et_lib_thr_started) - atomic_load(&et_lib_thr_finished) - atomic_load(&et_lib_et_alive);
}

/* uninstrumented peek: is the mutex held by another thread right now? (glibc layout) */
__attribute__((no_sanitize("thread"), noinline)) static int et_mutex_held_by_other(pthread_mutex_t *m, int me)
{
  int l = *(volatile int *)&m->__data.__lock;
  int o = *(volatile int *)&m->__data.__owner;
  return l != 0 && o != 0 && o != me;
}

int __wrap_pthread_mutex_lock(pthread_mutex_t *m)
{
  int rc;
  et_inject();
  atomic_fetch_add_explicit(&et_n_lock, 1, ET_RELAX);
  if (et_mutex_held_by_other(m, et_gettid())) {
    atomic_fetch_add_explicit(&et_n_contended, 1, ET_RELAX);
    atomic_fetch_add_explicit(&et_contended_by_role[et_role >= ET_ROLE_CLIENT0 ? 1 : 0], 1, ET_RELAX);
  }
  rc = __real_pthread_mutex_lock(m);
  if (rc == 0) {
    et_depth++;
  }
  return rc;
}

int __wrap_pthread_mutex_unlock(pthread_mutex_t *m)
{
  int rc = __real_pthread_mutex_unlock(m);
  if (rc == 0 && et_depth > 0) {
    et_depth--;
  }
  et_inject();
  return rc;
}

int __wrap_pthread_cond_wait(pthread_cond_t *c, pthread_mutex_t *m)
{
  atomic_fetch_add_explicit(&et_n_condwait, 1, ET_RELAX);
  return __real_pthread_cond_wait(c, m);
}

int __wrap_pthread_cond_timedwait(pthread_cond_t *c, pthread_mutex_t *m, const struct timespec *ts)
{
  atomic_fetch_add_explicit(&et_n_condtimedwait, 1, ET_RELAX);
  return __real_pthread_cond_timedwait(c, m, ts);
}

int __wrap_pthread_cond_signal(pthread_cond_t *c)
{
  atomic_fetch_add_explicit(&et_n_condsignal, 1, ET_RELAX);
  return __real_pthread_cond_signal(c);
}

int __wrap_pthread_cond_broadcast(pthread_cond_t *c)
{
  atomic_fetch_add_explicit(&et_n_condbroadcast, 1, ET_RELAX);
  return __real_pthread_cond_broadcast(c);
}

/* harness-own locks bypass the injection and the counting */
#define ET_LOCK(m)   __real_pthread_mutex_lock(m)
#define ET_UNLOCK(m) __real_pthread_mutex_unlock(m)

/* ---- ring of the waits made by library threads (event threads) ---- */
#define ET_RING 4096
typedef struct {
  _Atomic int     tid;
  _Atomic int     backend; /* 0 epoll 1 poll 2 select */
  _Atomic int     timeout_ms; /* -1 = infinite */
  _Atomic int     rv;
  _Atomic int64_t t_enter;
  _Atomic int64_t t_exit; /* 0 while inside */
} et_wait_t;
static et_wait_t       et_ring[ET_RING];
static _Atomic unsigned et_ring_head;
static _Atomic int      et_main_et_tid;   /* the event thread of the channel under test */
static _Atomic int      et_main_cur_slot; /* ring slot of its wait in progress, or -1 */
static _Atomic uint64_t et_n_waits[3][2];  /* backend x {infinite, finite} (main event thread only) */
static _Atomic uint64_t et_n_wake_events;  /* waits that returned with >=1 ready descriptor */
static _Atomic uint64_t et_n_wake_timeout; /* waits that ran into their timeout */
static _Atomic uint64_t et_n_other_et_waits;

static const char *const et_backend_name[3] = { "epoll", "poll", "select" };

static int et_wait_enter(int backend, int timeout_ms)
{
  unsigned   slot;
  et_wait_t *w;
  int        tid, main_tid;
  if (et_role != ET_ROLE_LIB) {
    return -1;
  }
  if (!et_is_event_thread) {
    et_is_event_thread = 1;
    atomic_fetch_add(&et_lib_et_alive, 1);
  }
  tid      = et_gettid();
  main_tid = atomic_load_explicit(&et_main_et_tid, memory_order_acquire);
  if (main_tid == 0) {
    int expect = 0;
    if (atomic_compare_exchange_strong(&et_main_et_tid, &expect, tid)) {
      main_tid = tid;
    } else {
      main_tid = expect;
    }
  }
  slot = atomic_fetch_add_explicit(&et_ring_head, 1, ET_RELAX) % ET_RING;
  w    = &et_ring[slot];
  atomic_store_explicit(&w->tid, tid, ET_RELAX);
  atomic_store_explicit(&w->backend, backend, ET_RELAX);
  atomic_store_explicit(&w->timeout_ms, timeout_ms, ET_RELAX);
  atomic_store_explicit(&w->rv, 0, ET_RELAX);
  atomic_store_explicit(&w->t_exit, 0, ET_RELAX);
  atomic_store_explicit(&w->t_enter, et_now_ns(), memory_order_release);
  if (tid == main_tid) {
    atomic_fetch_add_explicit(&et_n_waits[backend][timeout_ms < 0 ? 0 : 1], 1, ET_RELAX);
    atomic_store_explicit(&et_main_cur_slot, (int)slot, memory_order_release);
  } else {
    atomic_fetch_add_explicit(&et_n_other_et_waits, 1, ET_RELAX);
  }
  return (int)slot;
}

static void et_wait_exit(int slot, int rv)
{
  et_wait_t *w;
  if (slot < 0) {
    return;
  }
  w = &et_ring[slot];
  atomic_store_explicit(&w->rv, rv, ET_RELAX);
  atomic_store_explicit(&w->t_exit, et_now_ns(), memory_order_release);
  if (atomic_load_explicit(&w->tid, ET_RELAX) == atomic_load_explicit(&et_main_et_tid, ET_RELAX)) {
    atomic_store_explicit(&et_main_cur_slot, -1, memory_order_release);
    if (rv > 0) {
      atomic_fetch_add_explicit(&et_n_wake_events, 1, ET_RELAX);
    } else if (rv == 0) {
      atomic_fetch_add_explicit(&et_n_wake_timeout, 1, ET_RELAX);
    }
  }
  atomic_fetch_add_explicit(&et_progress, 1, ET_RELAX);
}

int __wrap_epoll_wait(int epfd, struct epoll_event *ev, int maxev, int timeout)
{
  int slot = et_wait_enter(0, timeout < 0 ? -1 : timeout);
  int rv   = __real_epoll_wait(epfd, ev, maxev, timeout);
  et_wait_exit(slot, rv);
  return rv;
}

int __wrap_poll(struct pollfd *fds, nfds_t n, int timeout)
{
  int slot = et_wait_enter(1, timeout < 0 ? -1 : timeout);
  int rv   = __real_poll(fds, n, timeout);
  et_wait_exit(slot, rv);
  return rv;
}

int __wrap_select(int nfds, fd_set *r, fd_set *w, fd_set *e, struct timeval *tv)
{
  int slot = et_wait_enter(2, tv == NULL ? -1 : (int)(tv->tv_sec * 1000 + tv->tv_usec / 1000));
  int rv   = __real_select(nfds, r, w, e, tv);
  et_wait_exit(slot, rv);
  return rv;
}

/* the Linux configuration-change monitor watches "/etc" (hard-coded); point it at the scratch directory so
 * that replacing <scratch>/resolv.conf makes the event thread call ares_reinit() like a real config change */
static char et_scratch_dir[128];
static _Atomic int et_inotify_redirects;

int __wrap_inotify_add_watch(int fd, const char *path, uint32_t mask)
{
  if (path != NULL && strcmp(path, "/etc") == 0 && et_scratch_dir[0]) {
    atomic_fetch_add_explicit(&et_inotify_redirects, 1, ET_RELAX);
    return __real_inotify_add_watch(fd, et_scratch_dir, mask);
  }
  return __real_inotify_add_watch(fd, path, mask);
}

/* TSan calls this (weak hook in libtsan) for every report it prints */
static _Atomic int et_tsan_reports;
void __tsan_on_report(void *rep);
void __tsan_on_report(void *rep)
{
  (void)rep;
  atomic_fetch_add_explicit(&et_tsan_reports, 1, ET_RELAX);
}

#endif
