"""C02 DNS message parsers are total and memory-safe on arbitrary bytes (engine E2, harness `legacy`).

Stages
  names : exhaustive small-scope enumeration of the name region (all byte strings of length 0..L over
          the pointer/label alphabet behind three 12-octet headers); ares_expand_name and
          ares_dns_name_parse at every offset against an independent reference decoder.
  total : seeded structure-aware messages, byte mutations and the seed corpus handed to every decoding
          entry point (record parser with all flag combinations + getter walk + writer, the legacy
          reply parsers, name/string decoders at many offsets, hexdump/split, addrinfo conversion),
          each on an exactly sized heap copy under ASan+UBSan+LSan with a counting-allocator ledger
          and a 2 s per-call CPU watchdog.
  msan  : (thorough) the total profile again under MemorySanitizer on fresh case indices.
  fuzz  : (thorough) the same body as a libFuzzer target, N independent bounded processes.
"""
import os
import shutil
import subprocess
import time
from checks import common
import vdriver

PROP = "C02"
common.HARNESSES["legacy"] = dict(srcs=["harness/legacy/legacy.c"], flavor="asan")
common.HARNESSES["legacy_fuzz"] = dict(srcs=["harness/legacy/fuzz_total.c"], flavor="fuzz")
CORPUS = os.path.join(common.VERIF, "corpus")
RULE = ("total: one case = one byte string (generated message / mutation / seed file) through every decoding "
        "entry point; non-trivial = the input reaches RR parsing (>=1 RR fixed header fits) or holds a name "
        "with >=1 compression pointer; distinct = distinct message shape (per-RR section/type/rdlength class, "
        "counts, length class). names: non-trivial = a name in the string region contains >=1 pointer; "
        "distinct = distinct vector of reference verdicts over the string offsets")


def own(key):
    return PROP


def private_spec(name, profile, seed, opts=None, flavor=None):
    """spec() whose binary is a private copy under build/scratch: the content-addressed build
    directory may be pruned by a concurrent build of another tree while this check still runs."""
    last = None
    for _ in range(4):
        try:
            sp = common.spec(name, profile, seed, flavor=flavor, opts=opts)
            d = os.path.join(vdriver.SCRATCH, "bin-%d" % os.getpid())
            os.makedirs(d, exist_ok=True)
            dst = os.path.join(d, os.path.basename(sp["binary"]))
            if not os.path.exists(dst):
                shutil.copy2(sp["binary"], dst + ".tmp")
                os.rename(dst + ".tmp", dst)
            sp["binary"] = dst
            return sp
        except (OSError, RuntimeError) as e:   # pruned between build and copy: build again
            last = e
            time.sleep(0.5)
    raise last


def drop_private():
    shutil.rmtree(os.path.join(vdriver.SCRATCH, "bin-%d" % os.getpid()), ignore_errors=True)


def names_cases(L):
    specials = {0x00, 0x01, 0x3f, 0x40, 0x80, 0xbf, 0xc0, 0xc1, 0xff}
    A = len(specials | set(range(12 + L)))
    return 3 * sum(A ** max(l - 3, 0) for l in range(L + 1)), A


def fuzz_stage(seed, nproc, runs, res):
    """N independent libFuzzer processes on private corpus copies; crashes re-run singly."""
    binp = private_spec("legacy_fuzz", "fuzz", seed)["binary"]
    root = os.path.join(vdriver.SCRATCH, "c02-fuzz-%d-%d" % (seed, os.getpid()))
    shutil.rmtree(root, ignore_errors=True)
    os.makedirs(root)
    env = dict(os.environ)
    env.update(vdriver.SAN_ENV)
    env["ASAN_OPTIONS"] += ":detect_leaks=1"
    procs = []
    for i in range(nproc):
        d = os.path.join(root, "p%d" % i)
        cdir = os.path.join(d, "corpus")
        os.makedirs(cdir)
        for sub in ("fuzzinput", "fuzznames"):
            for fn in os.listdir(os.path.join(CORPUS, sub)):
                shutil.copy(os.path.join(CORPUS, sub, fn), os.path.join(cdir, sub[4] + "-" + fn))
        fseed = (seed * 1000003 + i * 7919 + 1) & 0x7fffffff
        cmd = [binp, "-runs=%d" % runs, "-seed=%d" % fseed, "-max_len=70000", "-timeout=25", "-rss_limit_mb=4096",
               "-artifact_prefix=%s/" % d, "-print_final_stats=1", "-len_control=0", cdir]
        procs.append((i, d, subprocess.Popen(cmd, stdout=subprocess.DEVNULL, stderr=open(os.path.join(d, "log"), "wb"),
                                             env=env, cwd=d)))
    execs = 0
    units = 0
    for i, d, p in procs:
        rc = p.wait()
        log = open(os.path.join(d, "log"), "rb").read().decode("utf-8", "replace")
        for ln in log.splitlines():
            if ln.startswith("stat::number_of_executed_units:"):
                execs += int(ln.split()[-1])
        units += len(os.listdir(os.path.join(d, "corpus")))
        arts = [f for f in os.listdir(d) if f.startswith(("crash-", "timeout-", "leak-", "oom-"))]
        if rc != 0 and not arts:
            res.harness_errors.append("fuzz process %d rc=%s: %s" % (i, rc, log[-600:]))
        for a in arts:
            # re-run the artifact alone and key it
            q = subprocess.run([binp, os.path.join(d, a)], stdout=subprocess.PIPE, stderr=subprocess.PIPE, env=env,
                               cwd=d, timeout=120)
            err = q.stderr.decode("utf-8", "replace")
            keys = [ln.split()[1] for ln in err.splitlines() if ln.startswith("LG-VIOLATION ")]
            keys += [k for k in vdriver.sanitizer_keys(err) if not (keys and k.startswith(("asan:ABRT", "fuzz:deadly")))]
            if a.startswith("timeout-") and not keys:
                keys = ["hang:legacy_fuzz:total"]
            data = open(os.path.join(d, a), "rb").read()
            for k in keys or (["fuzz:unreproduced:%s" % a.split("-")[0]] if q.returncode == 0 else ["abort:fuzz"]):
                res.violations.append(dict(idx=0, key=k, detail="libFuzzer artifact %s len=%d bytes=%s" % (
                    a, len(data), data[:200].hex()), log=err[-4000:],
                    spec=dict(binary=binp, harness="legacy_fuzz", flavor="fuzz", profile="fuzz", seed=seed,
                              opts={}, env={})))
    res.evaluations += execs
    res.counters["fuzz_execs"] = res.counters.get("fuzz_execs", 0) + execs
    res.counters["fuzz_corpus_units"] = res.counters.get("fuzz_corpus_units", 0) + units
    shutil.rmtree(root, ignore_errors=True)


def run(tier, seed, scale=1.0):
    t0 = time.time()
    res = vdriver.Result()
    quick = tier == "quick"

    # ---- names: exhaustive enumeration
    L = 4 if quick else 5
    if scale < 0.5:
        L = 3 if quick else 4
    ncases, A = names_cases(L)
    sp = private_spec("legacy", "names", seed, opts={"L": L})
    rn = vdriver.explore(sp, ncases, chunk=max(1, ncases // 96), chunk_timeout=1800)
    names_exhaustive = (rn.counters.get("names_blocks_done", 0) == ncases and not rn.harness_errors and
                        not any(v["key"].startswith(("hang:", "abort:", "asan:", "ubsan:")) for v in rn.violations))
    rn.counters["names_enumeration_complete"] = 1 if names_exhaustive else 0
    res.merge(rn)

    # ---- total: every decoding entry point on generated / mutated / corpus inputs
    per = int((30000 if quick else 1000000) * scale)
    sp = private_spec("legacy", "total", seed, opts={"corpus": CORPUS})
    res.merge(vdriver.explore(sp, per, chunk=max(50, min(400, per // 128)), chunk_timeout=900,
                              stop_after_violations=2000))

    # ---- MSan replay of the deterministic workload on fresh case indices (thorough only)
    if not quick:
        try:
            spm = private_spec("legacy", "total", seed, opts={"corpus": CORPUS}, flavor="msan")
            nm = int(80000 * scale)
            rm = vdriver.explore(spm, nm, chunk=max(50, min(400, nm // 64 or 50)), chunk_timeout=900, first=50000000,
                                 stop_after_violations=2000)
            rm.counters = {"msan_" + k: v for k, v in rm.counters.items() if k in ("entry_calls", "parse_accepted")}
            res.merge(rm)
        except RuntimeError as e:
            res.harness_errors.append("msan stage: %r" % (e,))

    # ---- optional libFuzzer stage (thorough only)
    if not quick and scale >= 0.05:
        try:
            fuzz_stage(seed, 16, int(15000 * scale), res)
        except Exception as e:  # build or run problem of the optional stage
            res.harness_errors.append("fuzz stage: %r" % (e,))

    drop_private()
    extra = dict(names_max_length=L, names_alphabet_size=A, names_blocks=ncases,
                 names_buffers=rn.counters.get("names_buffers", 0), names_exhaustive=names_exhaustive)
    return common.finish(PROP, tier, seed, "exploration", res, own, RULE, t0,
                         min_conclusive=1000 * scale,
                         assumptions=["reference name decoder / character-string definitions in harness/legacy are correct",
                                      "ASan+UBSan red zones (gcc) directly behind an exactly sized copy of every input",
                                      "counting allocator ledger installed with ares_library_init_mem",
                                      "per-call CPU watchdog 2.0-2.5 s (ITIMER_VIRTUAL)"],
                         extra=extra, exhaustive=False)
