"""C08 the query cache only replays fresh, matching, successful answers - simulator (E1), cache soundness model."""
import time
from checks import common
import vdriver
from checks import C01

PROP = "C08"
RULE = ("each case = 4-14 requests over 2-5 names x {A,AAAA,TXT} through all API forms (send, send_dnsrec with RD/CD variants, "
        "query, query_dnsrec, search, search_dnsrec, getaddrinfo, gethostbyname) with case/trailing-dot variants, per-name server "
        "behaviour over {data with TTL 0..2^31-1, NXDOMAIN+-SOA, NODATA+-SOA, SERVFAIL, REFUSED, TC}, qcache_max_ttl in "
        "{0,1,3,5,60,3600}, virtual-time gaps at 0/1 ms/.../999/1000/1001 ms/.../1 h, server-list changes and reinit, 0x20 "
        "on/off. Every response packet carries a unique serial; a serial delivered to a request started after the packet was "
        "injected is a cache replay and must match key, rcode/TC rules, lifetime min(max_ttl, own TTLs), configuration epoch, "
        "and show TTL = original - seconds cached. non-trivial = >=1 replay; distinct = distinct (max_ttl, per-request "
        "(api form, status, from-network?) sequence)")


def own(key):
    if key.startswith("cache:"):
        return PROP
    return C01.own(key)


def run(tier, seed, scale=1.0):
    t0 = time.time()
    n = int((30000 if tier == "quick" else 2000000) * scale)
    res = vdriver.explore(common.spec("simnet", "cache", seed), n, chunk=max(250, n // 128), chunk_timeout=900)
    return common.finish(PROP, tier, seed, "exploration", res, own, RULE, t0, min_conclusive=int(3000 * scale),
                         assumptions=["soundness only: the cache may always miss",
                                      "whole-second granularity of cache ages, as documented for TTLs"])
