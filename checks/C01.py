"""C01 every request completes exactly once - simulator (E1), monitors once+idx, ASan/UBSan."""
import time
from checks import common
import vdriver

PROP = "C01"
RULE = ("each case = one seeded history in the deterministic simulator (virtual clock/sockets/servers): 1-8 scripted "
        "requests over all 10 entry points + requests/cancels from callbacks, cancels, server changes, reinit, early "
        "destroy, socket faults, hostile server behaviours; non-trivial = >=1 transmission and >=1 of {re-entrant "
        "callback action, injected fault fired, scripted cancel, reordering of replies vs timers}; distinct = distinct "
        "hash of the sequence of (api call, callback status, server action, fault) event kinds")

OWN_PREFIX = ("once:", "idx:")


def own(key):
    if key.startswith("cbsetsrv:"):
        return PROP
    if key.startswith("health:"):
        return "C09"   # ARES_FLAG_PRIMARY rule
    if key.startswith("cfg16:"):
        return "C16"   # configured server order seen through ares_dup() in the simulator
    if key.startswith(OWN_PREFIX):
        return PROP
    if key.startswith("frame:"):
        return "C03"
    if key.startswith("fd:"):
        return "C10"
    if key.startswith("net:"):
        return "C06"
    if key.startswith("timer:"):
        return "C07"
    if key.startswith("ubsan:shift-exponent") and "ares_calc_query_timeout" in key:
        return "C06"
    # every other memory error / abort / hang in the simulator belongs to C01
    return PROP


def run(tier, seed, scale=1.0):
    t0 = time.time()
    n_main = int((40000 if tier == "quick" else 3000000) * scale)
    n_ccb = int((8000 if tier == "quick" else 600000) * scale)
    res = vdriver.Result()
    sp = common.spec("simnet", "hostile", seed)
    res.merge(vdriver.explore(sp, n_main, chunk=max(250, n_main // 128), chunk_timeout=600))
    sp2 = common.spec("simnet", "hostile-cancelcb", seed)
    res.merge(vdriver.explore(sp2, n_ccb, chunk=max(100, n_ccb // 64), chunk_timeout=600))
    # completion callbacks that replace the server list: confined to its own sub-workload, every key of it carries
    # the history it came from ("cbsetsrv:") so that the listed finding cannot hide anything found elsewhere
    n_ss = int((3000 if tier == "quick" else 200000) * scale)
    r3 = vdriver.explore(common.spec("simnet", "hostile-setsrvcb", seed), n_ss, chunk=max(50, n_ss // 64), chunk_timeout=600)
    for v in r3.violations:
        v["key"] = "cbsetsrv:" + v["key"]
    r3.counters = {"setsrvcb_" + k: v for k, v in r3.counters.items() if k in ("cases", "reentrant_set_servers", "requests", "transmissions")}
    r3.fps = set()
    res.merge(r3)
    # the socket-heavy histories of C10's workload (many sockets at once, legacy pollers with their 16-slot tables):
    # only the memory / undefined-behaviour / exactly-once monitors matter here
    n_sk = int((8000 if tier == "quick" else 500000) * scale)
    r4 = vdriver.explore(common.spec("simnet", "sockets", seed), n_sk, chunk=max(100, n_sk // 64), chunk_timeout=600)
    r4.counters = {"sockets_" + k: v for k, v in r4.counters.items() if k in ("cases", "requests", "transmissions", "note.sockets_many_at_once")}
    r4.fps = set()
    res.merge(r4)
    # enumeration: requests waiting on a failed and on a healthy server, a compound request (each entry point) joining
    # them, every send from the k-th on failing (k = 1..14): retries, failover and probes fail inside the call that
    # started them, which may complete the request being started
    n_sc = int((14 * 24 * (4 if tier == "quick" else 200)) * scale)
    r5 = vdriver.explore(common.spec("simnet", "sendcut", seed), n_sc, chunk=max(56, n_sc // 64), chunk_timeout=600)
    r5.counters = {"sendcut_" + k: v for k, v in r5.counters.items() if k in ("cases", "requests", "transmissions", "sendcut_fired")}
    r5.fps = set()
    res.merge(r5)
    # completion callbacks that take a second or two of (virtual) time before they start follow-up requests, answers
    # that live a second or two, the cache on: only the memory / exactly-once monitors are meaningful there (time moving
    # inside a callback is outside what the other monitors model), their keys are kept and everything else dropped
    n_sl = int((6000 if tier == "quick" else 400000) * scale)
    r6 = vdriver.explore(common.spec("simnet", "hostile-slowcb", seed), n_sl, chunk=max(100, n_sl // 64), chunk_timeout=600)
    r6.violations = [v for v in r6.violations if v["key"].startswith(("asan:", "ubsan:", "once:", "abort:", "hang:", "lsan:"))]
    r6.counters = {"slowcb_" + k: v for k, v in r6.counters.items() if k in ("cases", "requests", "transmissions", "callback_took_its_time", "note.callback_took_its_time")}
    r6.fps = set()
    res.merge(r6)
    return common.finish(PROP, tier, seed, "exploration", res, own, RULE, t0,
                         min_conclusive=int(5000 * scale),
                         assumptions=["virtual socket layer and servers model a UDP/TCP network faithfully enough",
                                      "only documented-legal API use is generated (no ares_destroy from callbacks, no "
                                      "channel use from EDESTRUCTION callbacks)",
                                      "ASan/UBSan (gcc) red zones for the memory part"])
