"""C17 DNS cookies follow the RFC 7873 client state machine - simulator (E1), trace specification."""
import time
from checks import common
import vdriver
from checks import C01

PROP = "C17"
RULE = ("each case = 4-25 UDP+EDNS queries spaced by virtual-time gaps from {0,1,5,29..31,59,61,90,119..121,150,299..301 s, "
        "1 h, 12 h, 86399..86401 s} against 1-2 servers whose cookie behaviour (valid, rotating server cookie, none, wrong "
        "client part, client-only, 40-octet, bad-cookie once/always) changes at seeded points, with source-address changes, "
        "truncation->TCP and silence, sometimes on whole-second times. Trace rules from RFC 7873: R1 no cookie over TCP; R2 "
        "cookie present unless the server answered without one while unproven <=300 s ago; R3 client part constant unless "
        "source address changed / 1 day / regression or unsupported reset; R4 server part = latest valid one; R5 invalid or "
        "missing cookies not delivered while proven and within 120 s of the first such reply, and the client starts over by "
        "then; R6 bad-cookie => resend without consuming a try, over TCP after 3; non-trivial = >=2 model state changes; "
        "distinct = distinct (behaviours, timers crossed, state-change count, tries/servers)")


def own(key):
    if key.startswith("cookie:"):
        return PROP
    return C01.own(key)


def run(tier, seed, scale=1.0):
    t0 = time.time()
    n = int((20000 if tier == "quick" else 1500000) * scale)
    res = vdriver.explore(common.spec("simnet", "cookie", seed), n, chunk=max(200, n // 128), chunk_timeout=900)
    return common.finish(PROP, tier, seed, "exploration", res, own, RULE, t0, min_conclusive=int(2000 * scale),
                         assumptions=["client model written from RFC 7873/9018 and the statement; the unsupported period is "
                                      "accepted anywhere between 120 s (implementation) and 300 s (project plan)"])
