"""C07 (threaded half): with the event thread every request completes without any application action.

Engine E5 `etstress`, profile `timers`: 3 back ends x {fresh, idle kept-open (STAYOPEN), busy connection} x
{server answers, stays silent, closes}; the probe request is issued at a seeded offset after the event thread
went to sleep; bounded-completion monitor only (keys `timer:et:*`).

Also home of the shared etstress plumbing used by checks/C11.py: harness registration, the one-case-per-process
runner and the ThreadSanitizer report keyer (lib/vdriver.py's generic keyer does not read gcc's TSan frame
format and keys by innermost frames, which explodes for one missing lock; see `tsan_keys`)."""
import concurrent.futures as cf
import os
import re
import shutil
from checks import common
import vdriver

WRAPS = ("pthread_mutex_lock", "pthread_mutex_unlock", "pthread_cond_wait", "pthread_cond_timedwait",
         "pthread_cond_signal", "pthread_cond_broadcast", "pthread_create", "epoll_wait", "poll", "select",
         "inotify_add_watch")
common.HARNESSES["etstress"] = dict(srcs=["harness/etstress/etstress.c"], flavor="tsan",
                                    cflags="-Wall -Wno-deprecated-declarations -Wno-unused-function",
                                    ldflags=" ".join("-Wl,--wrap=%s" % w for w in WRAPS))

ENV = {"TSAN_OPTIONS": vdriver.SAN_ENV["TSAN_OPTIONS"] + ":report_thread_leaks=1"}

# ---------------------------------------------------------------------------------------------------------
# ThreadSanitizer report keyer.
#   key = tsan:<kind>:<side>|<side>     (one side for thread leaks)
#   side = the innermost frame of that stack that lies in /src/lib but not in the generic layers (containers,
#          buffers, thread/allocator wrappers): the function whose logic touches the shared state;
#          `reload-thread` when the stack runs on the library's configuration-reload thread
#          (outermost frame ares_reinit_thread): what such a thread races with matters, not where it was.
#          `ares_destroy` / `ares_library_cleanup` when the stack is inside those teardown entry points.
#   order: data races: a side that is just malloc/free recycling the block goes last; otherwise sides that held NO
#          mutex first (the culprit of a forgotten lock), then alphabetical; so
#          a known finding "entry point X forgets the lock" is the anchored prefix `tsan:data-race:X|`.
#          other kinds: report order (faulting access first).
#   descriptor races (`Location is file descriptor`): tsan:fd-race:<side operating on the stale number>.
# ---------------------------------------------------------------------------------------------------------
_FRAME = re.compile(r"^\s+#(\d+) (?:0x[0-9a-f]+ (?:in )?)?(\S+) (\S+)")
_GENERIC = ("/src/lib/dsa/", "/src/lib/str/", "/src/lib/util/", "/src/lib/ares_library_init.c")
_ACCESS = re.compile(r"^\s+(Read|Write|Atomic read|Atomic write|Previous read|Previous write|"
                     r"Previous atomic read|Previous atomic write) of size")
_SKIP_HDR = re.compile(r"^\s+(Location is|Mutex M\d+ \(|As if synchronized|Thread T\d+ \(.*\) created by|"
                       r"Thread T\d+ \(.*running\)|Mutex M\d+ is already|Mutex M\d+ previously)")


_ALLOC_CALLS = {"malloc", "calloc", "realloc", "free", "posix_memalign", "strdup"}
_FD_MAKERS = {"socket", "socketpair", "epoll_create1", "epoll_create", "inotify_init1", "inotify_init", "pipe",
              "pipe2", "open", "close", "dup", "dup2", "accept", "eventfd", "fopen", "fclose", "creat", "openat"}


# stacks that are named by what they ARE rather than by where they were: the library's reload thread, and the
# teardown entry points (everything they free races the same way with a thread they failed to wait for)
_ROLES = {"ares_reinit_thread": "reload-thread", "ares_destroy": "ares_destroy",
          "ares_library_cleanup": "ares_library_cleanup"}


def _side_label(frames):
    lib = [(fn, loc) for fn, loc in frames if "/src/lib/" in loc and "/harness/" not in loc]
    if not lib:
        hs = [fn for fn, loc in frames if "/harness/" in loc and not fn.startswith("__wrap")]
        for fn in hs:
            if fn.startswith("et_api_"):       # harness frame named after the entry point it calls
                return "ares_" + fn[len("et_api_"):]
        return "harness:" + hs[0] if hs else "?"
    if lib[-1][0] in _ROLES:
        return _ROLES[lib[-1][0]]
    for fn, loc in lib:
        if fn in vdriver.ALLOC_WRAPPERS or any(g in loc for g in _GENERIC):
            continue
        return fn
    return lib[0][0]


def tsan_keys(text):
    keys, details = [], []
    blocks = re.split(r"^={18}\s*$", text, flags=re.M)
    for blk in blocks:
        m = re.search(r"WARNING: ThreadSanitizer: ([^(\n]+)\(pid", blk)
        if not m:
            continue
        kind = "-".join(m.group(1).strip().split())
        lines = blk.splitlines()
        stacks = []   # (header, frames)
        cur = None
        for ln in lines:
            fm = _FRAME.match(ln)
            if fm:
                if cur is not None:
                    cur[1].append((fm.group(2), fm.group(3)))
                continue
            if ln.startswith("  ") and ln.rstrip().endswith(":") and not ln.startswith("    "):
                cur = (ln, [])
                stacks.append(cur)
            elif not ln.strip():
                cur = None
        if "Location is file descriptor" in blk:
            # descriptor races: creation/close of a descriptor number vs an operation on that number.  What
            # matters is who operates on a stale number; whoever re-created the number is incidental.
            ops = [s for s in stacks if _ACCESS.match(s[0]) and not
                   (s[1] and s[1][0][0] in _FD_MAKERS)]
            labels = sorted({_side_label(fr) for _, fr in ops}) or ["fd-reuse"]
            key = "tsan:fd-race:%s" % "|".join(labels)
            if key not in keys:
                keys.append(key)
                details.append(" ;; ".join("%s [%s]" % (h.strip()[:60], " < ".join(fn for fn, _ in fr[:6]))
                                           for h, fr in stacks if _ACCESS.match(h))[:900])
            continue
        if kind == "thread-leak":
            sides = [s for s in stacks if " created by " in s[0]][:1]
        elif kind == "data-race":
            sides = [s for s in stacks if _ACCESS.match(s[0])][:2]
        else:
            sides = [s for s in stacks if not _SKIP_HDR.match(s[0])][:2]
        labelled = [((not fr or fr[0][0] in _ALLOC_CALLS, "(mutexes:" in h), _side_label(fr)) for h, fr in sides]
        if kind == "data-race":
            # a side that is the allocator handing out or taking back the block (memory reuse), or whose stack
            # TSan could not restore, is incidental: last;
            # then sides holding no mutex first, then alphabetical
            labelled.sort()
        # other kinds (heap-use-after-free, ...) keep report order: the faulting access first
        key = "tsan:%s:%s" % (kind, "|".join(l for _, l in labelled) or "?")
        if key not in keys:
            keys.append(key)
            inner = []
            for h, fr in sides:
                inner.append("%s [%s]" % (h.strip()[:60], " < ".join(fn for fn, _ in fr[:6])))
            details.append(" ;; ".join(inner)[:900])
    # fatal signal caught by the runtime
    for m in re.finditer(r"ERROR: ThreadSanitizer: (SEGV|BUS|FPE|ILL|ABRT)[^\n]*\n(?:==\d+==[^\n]*\n)*((?:\s+#\d+ [^\n]*\n)+)", text):
        frames = [(fm.group(2), fm.group(3)) for fm in (_FRAME.match(l) for l in m.group(2).splitlines()) if fm]
        key = "tsan:%s:%s" % (m.group(1), _side_label(frames))
        if key not in keys:
            keys.append(key)
            details.append(("fatal signal in [%s]" % " < ".join(fn for fn, _ in frames[:7]))[:900])
    # the runtime itself giving up (e.g. pthread_join() on a thread that was joined already)
    for m in re.finditer(r"ThreadSanitizer: CHECK failed: ([^\n]*)\n((?:\s+#\d+ [^\n]*\n)+)", text):
        frames = [(fm.group(2), fm.group(3)) for fm in (_FRAME.match(l) for l in m.group(2).splitlines()) if fm]
        key = "tsan:check-failed:%s" % _side_label(frames)
        if key not in keys:
            keys.append(key)
            details.append(("CHECK failed: %s [%s]" % (m.group(1)[:120], " < ".join(fn for fn, _ in frames[2:9])))[:900])
    return list(zip(keys, details))


# ---------------------------------------------------------------------------------------------------------
# runner: one case per worker process.  A TSan report (exit code 66 with halt_on_error=0) or the watchdog's
# exit is attributed to exactly that case, the other monitors of the case still count, no other case is lost.
# ---------------------------------------------------------------------------------------------------------
def _one(spec, idx, timeout):
    o = vdriver._run_chunk(spec, idx, 1, timeout)
    r, last, ended = vdriver._parse(o["out"])
    for v in r.violations:
        v["spec"] = spec
        v["log"] = ""
    err = o["err"]
    extra = []
    if "ThreadSanitizer" in err:
        for k, d in tsan_keys(err):
            extra.append((k, d))
    other = [k for k in vdriver.sanitizer_keys(err) if not k.startswith("tsan:")]
    for k in other:
        extra.append((k, "worker rc=%s" % o["rc"]))
    if o["timed_out"]:
        # the harness's own watchdogs leave long before the driver's timeout: undecidable, not a verdict
        r.inconclusive["driver-timeout"] = r.inconclusive.get("driver-timeout", 0) + 1
        if last is None:
            r.evaluations += 1
    elif last is None:
        r.harness_errors.append("worker died before first case rc=%s: %s" % (o["rc"], err[-800:]))
    elif not ended and not extra and not r.violations:
        extra.append(("abort:rc%s:%s" % (o["rc"], spec["profile"]), "worker terminated without a report"))
    elif ended and o["rc"] not in (0, 66) and not extra:
        extra.append(("abort:rc%s:%s" % (o["rc"], spec["profile"]), "unexpected exit code"))
    if last is not None and not ended and not o["timed_out"]:
        # the process died mid-case (a sanitizer abort, a failed assertion): the case's other monitors never ran
        r.counters["worker.died_mid_case"] = r.counters.get("worker.died_mid_case", 0) + 1
    for k, d in extra:
        r.violations.append(dict(idx=idx, key=k, detail=d, log=err[-6000:], spec=spec))
    return r


def explore(profile, seed, n, flavor, opts=None, workers=8, first=0, timeout=330):
    sp = common.spec("etstress", profile, seed, flavor=flavor, opts=opts or {}, env=ENV)
    # private working directory: every worker creates its per-process scratch directory (resolv.conf, hosts,
    # gdb output) below the current directory; a worker that crashes cannot tidy up, so the whole tree goes
    work = os.path.join(vdriver.SCRATCH, "etstress-%d-%s" % (os.getpid(), profile))
    os.makedirs(work, exist_ok=True)
    sp["cwd"] = work
    res = vdriver.Result()
    try:
        with cf.ThreadPoolExecutor(workers) as ex:
            for r in ex.map(lambda i: _one(sp, i, timeout), range(first, first + n)):
                res.merge(r)
    finally:
        shutil.rmtree(work, ignore_errors=True)
    res.samples = res.samples[:6]
    return res


def foreign_listed_to_inconclusive(res, own, prop):
    """A case that ended in a finding owned by ANOTHER property and already listed there as open is neither held
    nor violated for this check: count it as inconclusive instead of printing the other property's finding again
    (an unlisted foreign finding is still printed as FOREIGN-FINDING by the adjudication)."""
    known = vdriver.Known()
    keep = []
    for v in res.violations:
        o = own(v["key"])
        if o != prop and known.match(o, v["key"]):
            r = "foreign-known:%s" % o
            res.inconclusive[r] = res.inconclusive.get(r, 0) + 1
        else:
            keep.append(v)
    res.violations = keep


def replay(prop, path, tries=6):
    """Re-run the recorded case a few times (real threads: one run is one sample) and report whether the
    recorded key shows up again, using the same keyer as the exploration."""
    import json
    doc = json.load(open(path))
    sp = common.spec("etstress", doc["profile"], doc["seed"], flavor=doc.get("flavor"), opts=doc.get("opts", {}),
                     env=doc.get("env", ENV))
    work = os.path.join(vdriver.SCRATCH, "etstress-%d-replay" % os.getpid())
    os.makedirs(work, exist_ok=True)
    sp["cwd"] = work
    seen = {}
    try:
        for t in range(tries):
            r = _one(sp, doc["idx"], 330)
            for v in r.violations:
                seen.setdefault(v["key"], v)
            if doc["key"] in seen:
                break
    finally:
        shutil.rmtree(work, ignore_errors=True)
    for k, v in sorted(seen.items()):
        print("  saw %s | %s" % (k, v.get("detail", "")[:300]))
    if doc["key"] in seen:
        print(seen[doc["key"]].get("log", "")[-3000:])
        print("VIOLATION property=%s replay=%s key=%s (reproduced)" % (prop, path, doc["key"]))
        return 1
    print("replay did not reproduce key %s in %d runs" % (doc["key"], tries))
    return 0


def run(tier, seed, scale=1.0):
    n = max(27, int((54 if tier == "quick" else 600) * scale))
    return explore("timers", seed, n, "asan", workers=8)
