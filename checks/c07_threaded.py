"""C07 (threaded half): with the event thread every request completes without any application action.

Engine E5 `etstress`, profile `timers`: 3 back ends x {fresh, idle kept-open (STAYOPEN), busy connection} x
{server answers, stays silent, closes}; the probe request is issued at a seeded offset after the event thread
went to sleep; bounded-completion monitor only (keys `timer:et:*`).  Also home of the shared etstress plumbing
(harness registration, chunk-of-one exploration) used by checks/C11.py."""
from checks import common
import vdriver

WRAPS = ("pthread_mutex_lock", "pthread_mutex_unlock", "pthread_cond_wait", "pthread_cond_timedwait",
         "pthread_cond_signal", "pthread_cond_broadcast", "epoll_wait", "poll", "select", "inotify_add_watch")
common.HARNESSES["etstress"] = dict(srcs=["harness/etstress/etstress.c"], flavor="tsan",
                                    ldflags=" ".join("-Wl,--wrap=%s" % w for w in WRAPS))

# TSan must keep going after a report (the other monitors still have to run) and must not let the leak/race
# summary of one case be lost: one case per worker process, exit code 66 when anything was reported.
ENV = {"TSAN_OPTIONS": vdriver.SAN_ENV["TSAN_OPTIONS"] + ":report_thread_leaks=1:report_signal_unsafe=0"}


def explore(profile, seed, n, flavor, opts=None, workers=8, first=0):
    """One case per worker process (a TSan report or the watchdog's exit is then attributed to that case and
    no other case is lost); at most `workers` processes at a time, each has up to ~12 threads."""
    sp = common.spec("etstress", profile, seed, flavor=flavor, opts=opts or {}, env=ENV)
    return vdriver.explore(sp, n, chunk=1, workers=workers, chunk_timeout=300, first=first,
                           stop_after_violations=10 ** 6)


def run(tier, seed, scale=1.0):
    n = max(27, int((54 if tier == "quick" else 600) * scale))
    return explore("timers", seed, n, "asan", workers=8)
