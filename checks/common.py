"""Shared plumbing for the per-property check modules."""
import json
import os
import subprocess
import sys
import time

VERIF = os.path.dirname(os.path.dirname(os.path.abspath(__file__)))
sys.path.insert(0, os.path.join(VERIF, "lib"))
import vbuild  # noqa: E402
import vdriver  # noqa: E402

# Harness registry: name -> how to build it.  `flavor` is the default sanitizer flavor.
HARNESSES = {
    "dsmodel": dict(srcs=["harness/dsmodel/dsmodel.c"], flavor="asan"),
    "codec": dict(srcs=["harness/codec/codec.c", "harness/refdns/refdns.c"], flavor="asan",
                  cflags="-I%s/harness/refdns" % VERIF),
    "simnet": dict(srcs=["harness/simnet/simnet.c"], flavor="asan-det",
                   ldflags="-Wl,--wrap=ares_tvnow -Wl,--wrap=getenv -Wl,--wrap=srand"),
    "defsock": dict(srcs=["harness/defsock/defsock.c"], flavor="asan",
                    ldflags="-Wl,--wrap=socket -Wl,--wrap=close -Wl,--wrap=connect -Wl,--wrap=setsockopt -Wl,--wrap=fcntl "
                            "-Wl,--wrap=bind -Wl,--wrap=getsockname -Wl,--wrap=sendto -Wl,--wrap=send -Wl,--wrap=recvfrom "
                            "-Wl,--wrap=recv"),
    "cfg": dict(srcs=["harness/cfg/cfg.c"], flavor="asan-det",
                ldflags="-Wl,--wrap=fopen -Wl,--wrap=stat -Wl,--wrap=getenv -Wl,--wrap=ares_tvnow"),
}


def harness(name, flavor=None):
    h = HARNESSES[name]
    fl = flavor or h["flavor"]
    return vbuild.build_harness(name, h["srcs"], fl, h.get("cflags", ""), h.get("ldflags", "")), fl


def spec(name, profile, seed, flavor=None, opts=None, env=None):
    binp, fl = harness(name, flavor)
    return dict(binary=binp, harness=name, flavor=fl, profile=profile, seed=seed,
                opts=opts or {}, env=env or {})


def sanitizer_owner_default(prop):
    return lambda key: prop


def finish(prop, tier, seed, level, res, own, rule, t0, min_conclusive=1, assumptions=None,
           extra=None, exhaustive=False):
    """Adjudicate, write evidence, print a summary; returns the process exit code."""
    nnew, nknown, nforeign = vdriver.adjudicate(prop, res, own)
    inconc = sum(res.inconclusive.values())
    cov = dict(evaluations=res.evaluations, distinct_nontrivial=len(res.fps), rule=rule,
               samples=res.samples[:6], counters=dict(sorted(res.counters.items())),
               inconclusive=res.inconclusive, known_findings_hit=nknown,
               foreign_findings=nforeign, harness_errors=res.harness_errors[:5])
    if exhaustive:
        cov["exhaustive"] = True
    if extra:
        cov.update(extra)
    vdriver.write_evidence(prop, tier, seed, level, cov, time.time() - t0, nnew, assumptions)
    print("SUMMARY property=%s tier=%s seed=%s evaluations=%d distinct_nontrivial=%d "
          "inconclusive=%d new_violations=%d known=%d foreign=%d wall=%.1fs" % (
              prop, tier, seed, res.evaluations, len(res.fps), inconc, nnew, nknown, nforeign,
              time.time() - t0))
    if nnew:
        return 1
    if res.harness_errors:
        print("HARNESS-FAILURE property=%s %s" % (prop, res.harness_errors[0][:500]))
        return 2
    if res.evaluations - inconc < min_conclusive or len(res.fps) < 2:
        print("HARNESS-FAILURE property=%s too few conclusive cases (%d conclusive, %d distinct)" % (
            prop, res.evaluations - inconc, len(res.fps)))
        return 2
    return 0


def replay(prop, path, mod):
    doc = json.load(open(path))
    binp, fl = harness(doc["harness"], doc.get("flavor"))
    cmd = [binp, "--profile", doc["profile"], "--seed", str(doc["seed"]), "--first",
           str(doc["idx"]), "--count", "1", "--verbose"]
    for k, v in doc.get("opts", {}).items():
        cmd += ["--opt", "%s=%s" % (k, v)]
    env = dict(os.environ)
    env.update(vdriver.SAN_ENV)
    env.update(doc.get("env", {}))
    os.makedirs(vdriver.SCRATCH, exist_ok=True)
    p = subprocess.run(cmd, stdout=subprocess.PIPE, stderr=subprocess.PIPE, env=env,
                       cwd=vdriver.SCRATCH, timeout=600)
    out = p.stdout.decode("utf-8", "replace")
    err = p.stderr.decode("utf-8", "replace")
    sys.stdout.write(out)
    sys.stdout.write(err[-int(os.environ.get("VERIF_REPLAY_TAIL", "8000")):])
    keys = [ln.split()[2] for ln in out.splitlines() if ln.startswith("V ")]
    keys += vdriver.sanitizer_keys(err)
    want = doc["key"]
    for pfx in ("cbsetsrv:", "sim:"):   # stage tags added by a check to the keys of one sub-workload
        if want.startswith(pfx):
            want = want[len(pfx):]
    if want in keys or doc["key"] in keys:
        print("VIOLATION property=%s replay=%s key=%s (reproduced)" % (prop, path, doc["key"]))
        return 1
    print("replay did not reproduce key %s (saw %s)" % (doc["key"], keys))
    return 0
