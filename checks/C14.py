"""C14 any single allocation failure is survived cleanly - simulator (E1) under a fail-n allocator with a ledger."""
import time
from checks import common
import vdriver
from checks import C01, C10

PROP = "C14"
KINDS = 25
STRIDE = 8
RULE = ("fault enumeration: for each scenario of a fixed family (25 kinds x variants: UDP, retry, TC->TCP, TCP, fast-open, "
        "stay-open, per-socket limit, getaddrinfo+sorting, cancel, server change, search, TCP reset, cache hits, hosts file, "
        "reverse lookups, reinit, dup/save/sortlist, destroy with requests outstanding, multi-domain search + legacy "
        "entry points, init with many options, 28 concurrent requests growing the query and socket tables, literal/local names, full and malformed system configuration + environment + reinit) one reference run counts the allocations N made between ares_init_options "
        "and the end of ares_destroy through a counting allocator installed with ares_library_init_mem, then the scenario "
        "is re-run N+1 times failing exactly the n-th allocation. Each run is judged by: ASan/UBSan; exactly one callback "
        "per request; descriptor protocol; nothing stuck; ledger empty after destroy; no free of an unknown block; a fresh "
        "query after the failure succeeds if it does without; success means the same number of addresses as without the "
        "failure. non-trivial = the n-th allocation was reached; distinct = distinct failing call sites (innermost 4 frames)")


def own(key):
    if key.startswith("oom:"):
        return PROP
    # everything that goes wrong under an injected allocation failure is this property's business
    return PROP


def run(tier, seed, scale=1.0):
    t0 = time.time()
    nscn = int((KINDS * 2 if tier == "quick" else KINDS * 12) * max(scale, 0.05))
    nscn = max(nscn, KINDS)
    res = vdriver.Result()
    sp = common.spec("simnet", "oom", seed)
    r1 = vdriver.explore(sp, nscn * STRIDE, chunk=1, chunk_timeout=900)
    res.merge(r1)
    c = r1.counters
    extra = dict(fault_enumeration=dict(scenarios=nscn,
                                        allocations_in_reference_runs=c.get("oom_allocations_in_reference_runs", 0),
                                        runs_with_one_failed_allocation=c.get("oom_runs_with_failure", 0),
                                        stride_slots_enumerated_past_last_allocation=c.get("oom_enumeration_past_last_allocation", 0),
                                        failures_during_init=c.get("oom_failed_during_init", 0)),
                 exhaustive_for_scenarios=(c.get("oom_enumeration_past_last_allocation", 0) >= nscn * STRIDE))
    return common.finish(PROP, tier, seed, "fault_enumeration", res, own, RULE, t0,
                         min_conclusive=nscn * STRIDE // 2,
                         assumptions=["the simulator is deterministic, so the n-th allocation of a scenario is the same call site in every run",
                                      "allocations are failed one at a time (the statement's quantifier)"],
                         extra=extra)
