"""C09 server selection follows the failover policy - simulator (E1), health monitor over the public state stream."""
import time
from checks import common
import vdriver
from checks import C01

PROP = "C09"
RULE = ("each case = 4-30 wire queries over time against 1-5 servers whose behaviour (good, silent, error rcodes, flaky, "
        "negative, reset) changes at seeded times; rotate on/off, tries 1-3, failover options (retry chance 0-3, retry delay "
        "0-3000 ms), server-list edits. Consecutive-failure counts are kept from the public server-state callback stream; "
        "every transmission's destination must have the minimal count (first such in configuration order when rotation is "
        "off) unless it is the same-server EDNS-downgrade resend or a probe; probes must copy a first attempt just sent to a "
        "best server, respect the retry delay, never occur with chance 0 and never double up; the stream is anchored: a "
        "timed-out or error-rcode attempt that is retried has a failure event, a delivered answer has a success event from "
        "its server, a success only follows a good response read from that server. non-trivial = >=1 decision taken while "
        "some server had failures; distinct = distinct (failure-count shape, rotate, servers, failover options, probes seen)")


def own(key):
    if key.startswith("health:"):
        return PROP
    return C01.own(key)


def run(tier, seed, scale=1.0):
    t0 = time.time()
    n = int((20000 if tier == "quick" else 1500000) * scale)
    res = vdriver.explore(common.spec("simnet", "failover", seed), n, chunk=max(200, n // 128), chunk_timeout=900)
    # ARES_FLAG_PRIMARY ("only the first server of the list") is exercised by the general hostile histories: the one rule
    # about it (health:primary-not-first) is this check's, everything else found there is C01's business and dropped here
    n_h = int((20000 if tier == "quick" else 600000) * scale)
    r2 = vdriver.explore(common.spec("simnet", "hostile", seed), n_h, chunk=max(250, n_h // 128), chunk_timeout=900)
    r2.violations = [v for v in r2.violations if v["key"].startswith("health:")]
    r2.counters = {"hostile_" + k: v for k, v in r2.counters.items() if k in ("cases", "rule_primary_keeps_first", "note.rule_primary_keeps_first")}
    r2.fps = set()
    res.merge(r2)
    return common.finish(PROP, tier, seed, "exploration", res, own, RULE, t0, min_conclusive=int(2000 * scale),
                         assumptions=["health counts are derived from the library's own public notifications",
                                      "fairness of the random choice under rotation is not judged"])
