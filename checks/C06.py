"""C06 retries bounded, policy-conforming, terminating - simulator (E1), net monitor + UBSan."""
import time
from checks import common
import vdriver
from checks import C01

PROP = "C06"
RULE = ("each case = seeded history of 1-3 wire queries against 1-4 virtual servers whose per-attempt outcomes are drawn over "
        "{answer, error rcodes, FORMERR+-OPT, TC, BADCOOKIE, silence, reset, close, connect refused/never, socket faults}, "
        "tries 1..100, timeout 1..10000 ms, maxtimeout unset/small/large, rotate, udp_max_queries, server-list edits; the "
        "net monitor counts transmissions per (name,type,id) at the virtual network against servers x tries + justified "
        "protocol resends, checks each (re)send's wait against floor/base/maxtimeout, and the scheduler detects stuck "
        "queries; non-trivial = some query transmitted >=2 times; distinct = distinct (per-transmission outcome sequence, "
        "config class)")


def own(key):
    if key.startswith("net:") or key.startswith("timer:stuck"):
        return PROP
    if key.startswith("ubsan:") and ("ares_calc_query_timeout" in key or "ares_metrics" in key or "timeadd" in key
                                     or "ares_timeval" in key or "ares_timeout" in key):
        return PROP
    if key.startswith("hang:"):
        return PROP
    return C01.own(key)


def run(tier, seed, scale=1.0):
    t0 = time.time()
    n = int((30000 if tier == "quick" else 2000000) * scale)
    res = vdriver.explore(common.spec("simnet", "retry", seed), n, chunk=max(100, n // 256), chunk_timeout=900)
    return common.finish(PROP, tier, seed, "exploration", res, own, RULE, t0, min_conclusive=int(3000 * scale),
                         assumptions=["wait bounds are read from the library's own per-query deadline right after each (re)send "
                                      "(internal view), transmissions are counted at the virtual network (external view)",
                                      "the learned base timeout is only checked against its documented floor and cap"])
