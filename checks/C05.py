"""C05 only an authentic, matching response is used - simulator (E1), provenance monitor + adversary + differential."""
import time
from checks import common
import vdriver
from checks import C01

PROP = "C05"
RULE = ("each case = 2-8 requests (some repeated, cache on/off, 0x20/EDNS/cookies/STAYOPEN/udp_max_queries variants, slow and "
        "silent servers so that retries and stale replies occur, local-address changes) with an adversary injecting 3-24 "
        "forged UDP replies aimed at recent transmissions: wrong id, name, type, class, letter case, source address (far and "
        "sharing the server's address prefix), right reply on the wrong socket, missing question, wrong client cookie, "
        "replay of old answers; every packet carries a unique serial. Oracle: no request is handed a serial of a packet "
        "that was forged or that named a query not waiting on the socket it arrived on; no such packet precedes a "
        "server-success notification (one datagram is read per processing call so the notification is attributable); a "
        "later identical request served from the cache is covered because it carries the serial of the packet it came "
        "from. non-trivial = >=1 forged packet was read while its target query was "
        "live; distinct = distinct (set of forgery kinds read live, flags, socket-limit/server config)")


def own(key):
    if key.startswith("prov:"):
        return PROP
    return C01.own(key)


def run(tier, seed, scale=1.0):
    t0 = time.time()
    n = int((20000 if tier == "quick" else 1500000) * scale)
    res = vdriver.explore(common.spec("simnet", "prov", seed), n, chunk=max(250, n // 128), chunk_timeout=900)
    return common.finish(PROP, tier, seed, "exploration", res, own, RULE, t0, min_conclusive=int(3000 * scale),
                         assumptions=["'currently assigned connection' is read from the live query through ares_private.h at the "
                                      "moment the library reads the packet",
                                      "an off-path adversary cannot inject into established TCP streams (UDP only)"])
