"""C05 only an authentic, matching response is used - simulator (E1), provenance monitor + adversary + differential."""
import time
from checks import common
import vdriver
from checks import C01

PROP = "C05"
RULE = ("each case = 2-8 requests (some repeated, cache on/off, 0x20/EDNS/cookies/STAYOPEN/udp_max_queries variants, slow and "
        "silent servers so that retries and stale replies occur, local-address changes) with an adversary injecting 3-24 "
        "forged UDP replies aimed at recent transmissions: wrong id, name, type, class, letter case, source address (far and "
        "sharing the server's address prefix), right reply on the wrong socket, missing question, wrong client cookie, "
        "replay of old answers; every packet carries a unique serial. Oracle: no request is handed a serial of a packet "
        "that was forged or that named a query not waiting on the socket it arrived on; no such packet precedes a "
        "server-success notification (one datagram is read per processing call so the notification is attributable); a "
        "later identical request served from the cache is covered because it carries the serial of the packet it came "
        "from. non-trivial = >=1 forged packet was read while its target query was "
        "live; distinct = distinct (set of forgery kinds read live, flags, socket-limit/server config)")


def own(key):
    if key.startswith("prov:"):
        return PROP
    if key.startswith("cookie:cookieless-delivered") or key.startswith("cookie:wrong-client-cookie-delivered"):
        return PROP   # "passes the DNS-cookie checks", judged over histories that span the cookie timers
    if key.startswith("cookie:"):
        return "C17"
    return C01.own(key)


def run(tier, seed, scale=1.0):
    t0 = time.time()
    n = int((20000 if tier == "quick" else 1500000) * scale)
    res = vdriver.explore(common.spec("simnet", "prov", seed), n, chunk=max(250, n // 128), chunk_timeout=900)
    # the cookie condition over long histories (regression period, daily rotation, address changes): the prov cases
    # above span a few seconds; C17's workload spans days of virtual time and its delivery rule is this property's
    n2 = int((6000 if tier == "quick" else 300000) * scale)
    r2 = vdriver.explore(common.spec("simnet", "cookie", seed), n2, chunk=max(100, n2 // 64), chunk_timeout=900)
    r2.counters = {"cookie_" + k: v for k, v in r2.counters.items() if k in ("cases", "rule_cookie_r5_delivery", "requests", "transmissions")}
    r2.fps = set()
    res.merge(r2)
    return common.finish(PROP, tier, seed, "exploration", res, own, RULE, t0, min_conclusive=int(3000 * scale),
                         assumptions=["'currently assigned connection' is read from the live query through ares_private.h at the "
                                      "moment the library reads the packet",
                                      "an off-path adversary cannot inject into established TCP streams (UDP only)"])
