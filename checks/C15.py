"""C15 configuration text is parsed robustly and line-independently (engine E4, harness/cfg).

Profiles of harness/cfg/cfg.c used here:
  robust     arbitrary bytes / grammar-aware junk / numeric extremes in every configuration source
             (resolv.conf, nsswitch.conf, netsvc.conf, svc.conf, hosts, HOSTALIASES file,
             RES_OPTIONS, LOCALDOMAIN, ares_set_sortlist and ares_set_servers_csv strings):
             sanitizers, exact allocation ledger, documented ranges of a successful init,
             exactly-once completion of network-free lookups, setters atomic on error
  lineindep  metamorphic: valid text F vs. F with junk lines inserted => same init status, same
             effective configuration E after init and after an awaited ares_reinit(), same
             hosts / alias lookups; invalid setter strings fail and change nothing; the two
             readings of the junk-free source (creation, reload) agree with each other
  single     absolute: one to three valid directives whose meaning the generator knows (every
             documented option word, every nameserver spelling incl. link-local interfaces and
             dns:// URIs, search/domain/LOCALDOMAIN, lookup via resolv.conf / nsswitch / netsvc /
             svc, sortlist forms) => the governed setting has the directive's value after creation
             and after reload; settings nothing mentions have their documented default
Triggers of listed findings that would otherwise hit a large share of the cases live in small
dedicated sub-workloads (opts zero=1, bigtries=1)."""
import time
from checks import common
import vdriver

PROP = "C15"

# the harness interposes more than the registry default: hostname, interface names, socket()
CFG_WRAPS = ["fopen", "stat", "getenv", "ares_tvnow", "gethostname", "if_nametoindex",
             "if_indextoname", "socket"]
CFG_HARNESS = dict(srcs=["harness/cfg/cfg.c"], flavor="asan-det",
                   ldflags=" ".join("-Wl,--wrap=%s" % w for w in CFG_WRAPS))
common.HARNESSES["cfg"] = CFG_HARNESS

RULE = ("robust: one case = one generated environment (1-3 junk sources) + option set, through "
        "init / lookups / setters / reinit / destroy; non-trivial = >= 8 junk bytes; distinct = "
        "(set of junk sources, init status, option mask).  lineindep: one case = valid environment "
        "F and F' = F + 1-3 junk lines of one class in one source (or an invalid setter string); "
        "non-trivial = F has >= 2 lines and initialises; distinct = (source, junk class, position "
        "start/between/end, directive set of F).  single: one case = 1-3 directives of different "
        "settings; distinct = set of (directive, source it was written to)")


def own(key):
    # monitors of the sibling property share the harness; everything else (sanitizers, ledger,
    # aborts, hangs, cfg15:*) is this property's
    return "C16" if key.startswith("cfg16:") else PROP


def _rename_bigtries(res):
    """The bigtries sub-workload exists only to exhibit one defect (unbounded recursion of
    ares_send_query/ares_requeue_query with a huge attempts value); give its crash a stable key
    instead of the three innermost frames, which depend on where the stack happened to end."""
    for v in res.violations:
        # (the report sometimes has an empty stack: the unwinder itself runs out of stack)
        if v["key"].startswith("asan:stack-overflow"):
            v["key"] = "cfg15:robust:huge-attempts:stack-overflow"


def run(tier, seed, scale=1.0):
    t0 = time.time()
    quick = tier == "quick"
    n_rob = int((24000 if quick else 1200000) * scale)
    n_li = int((22000 if quick else 900000) * scale)
    n_sub = max(64, int((600 if quick else 20000) * scale))
    res = vdriver.Result()

    def go(profile, total, opts=None, chunk=None):
        sp = common.spec("cfg", profile, seed, opts=opts)
        r = vdriver.explore(sp, total, chunk=chunk or max(200, min(4000, total // 64)),
                            chunk_timeout=1200)
        return r

    res.merge(go("robust", n_rob))
    res.merge(go("lineindep", n_li))
    res.merge(go("single", int((6000 if quick else 300000) * scale)))
    # dedicated sub-workloads for triggers of listed findings
    res.merge(go("robust", n_sub, opts={"zero": 1}, chunk=max(32, n_sub // 32)))
    res.merge(go("lineindep", n_sub // 2, opts={"zero": 1, "target": 0, "cls": 9},
                 chunk=max(32, n_sub // 32)))
    res.merge(go("lineindep", n_sub // 2, opts={"zero": 1, "target": 6, "cls": 5},
                 chunk=max(32, n_sub // 32)))
    big = go("robust", max(48, n_sub // 6), opts={"bigtries": 1}, chunk=max(8, n_sub // 128))
    _rename_bigtries(big)
    res.merge(big)
    return common.finish(
        PROP, tier, seed, "exploration", res, own, RULE, t0, min_conclusive=1000 * scale,
        assumptions=[
            "link-time interposition (fopen/stat/getenv/gethostname/if_nametoindex/if_indextoname/"
            "socket/ares_tvnow) covers every way this build reads system configuration "
            "(checked with nm on the objects)",
            "junk lines are junk by construction: unknown keyword, or a known keyword with a value "
            "the parser itself rejects (ares_inet_pton's lenient forms such as '1.2.3' or "
            "'1.2.3.4/8' are therefore not used as bad addresses)",
            "ranges checked are the documented ones only: >=1 server, timeout>0, tries>0, "
            "ndots 0..15 (ares_init_options.3), lookups over {b,f} without duplicates, sortlist "
            "masks <=32/128, ports 1..65535, non-empty domains, link-local servers carry an "
            "interface, no fec0::/10 server",
            "ASan+UBSan red zones (gcc) + counting allocator ledger + LSan for memory errors",
        ])
