"""C07 timers sound and live - simulator (E1) timer monitor; the event-thread half is added by etstress (E5)."""
import time
from checks import common
import vdriver
from checks import C01

PROP = "C07"
RULE = ("single-threaded part: at every scheduler step of 'retry' and 'hostile' histories ares_timeout() is called with maxtv in "
        "{NULL, 0, 1ms, 250ms, 3s, huge} and compared with the earliest deadline found by walking all live queries (not the "
        "timeout index): non-negative, normalised, <= maxtv, <= deadline-now, == maxtv when nothing is on a timer; after each "
        "processing call no live query may keep a deadline <= now (externally visible progress - retransmission, callback, "
        "socket call - is counted, not judged: a requeue onto a still-connecting TCP connection is invisible); non-trivial = >=1 query timed out at least "
        "once; distinct = distinct (number of live deadlines class, event-kind sequence hash)")


def own(key):
    if key.startswith("timer:") and not key.startswith("timer:stuck"):
        return PROP
    if key.startswith("timer:stuck"):
        return PROP
    return C01.own(key)


def run(tier, seed, scale=1.0):
    t0 = time.time()
    n = int((12000 if tier == "quick" else 800000) * scale)
    res = vdriver.Result()
    res.merge(vdriver.explore(common.spec("simnet", "retry", seed, opts={"fp": "timer"}), n, chunk=max(100, n // 128),
                              chunk_timeout=900))
    res.merge(vdriver.explore(common.spec("simnet", "hostile", seed, opts={"fp": "timer"}), n, chunk=max(100, n // 128),
                              chunk_timeout=900))
    try:
        from checks import c07_threaded
        res.merge(c07_threaded.run(tier, seed, scale))
    except ImportError:
        pass
    return common.finish(PROP, tier, seed, "exploration", res, own, RULE, t0, min_conclusive=int(2000 * scale),
                         assumptions=["deadlines are read from the live queries through ares_private.h as ground truth",
                                      "virtual time: the clock only moves when the scheduler moves it"])
