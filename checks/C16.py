"""C16 configuration is saved, duplicated and re-applied losslessly; user settings win
(engine E4, harness/cfg).

Profiles of harness/cfg/cfg.c used here:
  roundtrip  random option masks/values + server sets through all setters + sortlists under a
             generated valid system configuration; oracles: public view == channel state,
             setter result == model, save->init equal, dup equal (ordered server list with
             ports and link-local interface), csv->set->csv fixed point, node-list round trips
  userwins   explicit application settings vs. generated conflicting system configuration
             (rotate, use-vc, ndots, timeout, attempts, search, sortlist, lookup, nameserver,
             RES_OPTIONS, LOCALDOMAIN, kernel hostname): direct and differential (reference
             channel under an empty system configuration) after init and after every awaited
             ares_reinit()
Link-local server sets run in small dedicated sub-workloads (opt ll=1) because a listed finding
drops every such server."""
import time
from checks import common
from checks import C15  # registers the cfg harness with the complete wrap list
import vdriver

PROP = "C16"
common.HARNESSES["cfg"] = C15.CFG_HARNESS

RULE = ("one case = one option struct (mask + values, incl. zero/negative 'use default' forms) + "
        "setter calls + generated system configuration; non-trivial = >= 3 option bits or >= 2 "
        "servers; distinct = (option mask, server-encoding class [v4/v6/link-local x default/"
        "equal/differing ports], setter used, sysconfig directive set)")


def own(key):
    return PROP if key.startswith("cfg16:") else "C15"


def run(tier, seed, scale=1.0):
    t0 = time.time()
    quick = tier == "quick"
    n_rt = int((22000 if quick else 1800000) * scale)
    n_uw = int((18000 if quick else 1200000) * scale)
    n_sub = max(64, int((800 if quick else 30000) * scale))
    res = vdriver.Result()

    def go(profile, total, opts=None, chunk=None):
        sp = common.spec("cfg", profile, seed, opts=opts)
        return vdriver.explore(sp, total, chunk=chunk or max(200, min(4000, total // 64)),
                               chunk_timeout=1200)

    res.merge(go("roundtrip", n_rt))
    res.merge(go("userwins", n_uw))
    res.merge(go("roundtrip", n_sub, opts={"ll": 1}, chunk=max(32, n_sub // 32)))
    res.merge(go("userwins", n_sub // 2, opts={"ll": 1}, chunk=max(32, n_sub // 32)))
    # ares_dup() / ares_get_servers_csv() of a channel whose servers have failure counts (simulator, failover profile:
    # E1): the configured order is what counts.  Only the cfg16:* keys of that profile are this check's.
    n_fo = int((6000 if quick else 300000) * scale)
    r5 = vdriver.explore(common.spec("simnet", "failover", seed), n_fo, chunk=max(100, n_fo // 64), chunk_timeout=900)
    r5.violations = [v for v in r5.violations if v["key"].startswith("cfg16:")]
    r5.counters = {"sim_failover_" + k: v for k, v in r5.counters.items() if k in ("cases", "rule_dup_server_order", "note.rule_dup_server_order")}
    r5.fps = set()
    res.merge(r5)
    return common.finish(
        PROP, tier, seed, "exploration", res, own, RULE, t0, min_conclusive=1000 * scale,
        assumptions=[
            "E(channel) read through ares_private.h is the ground truth; public getters are "
            "checked against it",
            "ares_save_options carries IPv4 server addresses only and no per-server ports "
            "(ares_save_options.3): after save->init only the de-duplicated IPv4 addresses are "
            "compared; a channel whose server list was cleared answers ARES_ENODATA to save/dup",
            "node-list setters cannot name an interface: what they do with fe80::/10 entries is "
            "not asserted",
            "ares_reinit's worker thread is awaited (joined or polled via reinit_pending) before "
            "the channel is read",
        ])
