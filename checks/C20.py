"""C20 outcome independent of transport chopping - simulator (E1) A/B differential."""
import time
from checks import common
import vdriver
from checks import C01

PROP = "C20"
RULE = ("each case is run twice from the same seed: A with whole-message reads and full writes, B with seeded segmentation of "
        "inbound TCP streams (random chunks or 1 byte per read, splits inside the 2-byte length prefix), partial-write "
        "acceptance, EWOULDBLOCK patterns, with/without the pending-write callback and one-fd-per-call processing; batches "
        "of 1-20 queries queued before the connection completes, responses of 1..3000 records (up to 64 KiB), USEVC and "
        "TC-upgrade paths. Oracle: per request identical status/callback count/timeouts/record count+TTLs, identical "
        "sequence of TCP messages at the servers, every TCP frame received by a server decodes as a well-formed query, a "
        "truncated UDP reply is followed by a TCP transmission unless IGNTC. non-trivial = run B had TCP traffic and a "
        "chopping mode active; distinct = distinct (split mode, write mode, wouldblock, batch size class, callback mode)")


def own(key):
    if key.startswith("xport:"):
        return PROP
    return C01.own(key)


def run(tier, seed, scale=1.0):
    t0 = time.time()
    n = int((4000 if tier == "quick" else 400000) * scale)
    res = vdriver.explore(common.spec("simnet", "transport", seed), n, chunk=max(100, n // 128), chunk_timeout=900)
    return common.finish(PROP, tier, seed, "exploration", res, own, RULE, t0, min_conclusive=int(2000 * scale),
                         assumptions=["both runs see deterministic servers with fixed delays; virtual time does not advance "
                                      "while a chopped transfer is being completed"])
