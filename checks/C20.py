"""C20 outcome independent of transport chopping - simulator (E1) A/B differential."""
import time
from checks import common
import vdriver
from checks import C01

PROP = "C20"
RULE = ("each case is run twice from the same seed: A with whole-message reads and full writes, B with seeded segmentation of "
        "inbound TCP streams (random chunks or 1 byte per read, splits inside the 2-byte length prefix), partial-write "
        "acceptance, EWOULDBLOCK patterns, with/without the pending-write callback and one-fd-per-call processing; batches "
        "of 1-20 queries queued before the connection completes, responses of 1..3000 records (up to 64 KiB), USEVC and "
        "TC-upgrade paths. Oracle: per request identical status/callback count/timeouts/record count+TTLs, identical "
        "sequence of TCP messages at the servers, every TCP frame received by a server decodes as a well-formed query, a "
        "truncated UDP reply is followed by a TCP transmission unless IGNTC; second stage (sockets workload with UDP and TCP "
        "would-block): every datagram / de-framed stream message a server receives is exactly one well-formed query. non-trivial = run B had TCP traffic and a "
        "chopping mode active; distinct = distinct (split mode, write mode, wouldblock, batch size class, callback mode)")


def own(key):
    if key.startswith("xport:") or key.startswith("frame:"):
        return PROP
    if key.startswith("sim:"):
        return C01.own(key[4:])
    return C01.own(key)


def run(tier, seed, scale=1.0):
    t0 = time.time()
    n = int((4000 if tier == "quick" else 400000) * scale)
    res = vdriver.explore(common.spec("simnet", "transport", seed), n, chunk=max(100, n // 128), chunk_timeout=900)
    # would-block on datagram sockets changes the order and timing of transmissions, so the A/B comparison does not
    # apply to it; what must still hold is framing: every datagram / stream message that reaches a server is exactly
    # one well-formed query (sockets workload: seeded UDP and TCP would-block, short writes, query limits per socket)
    m = int((8000 if tier == "quick" else 600000) * scale)
    r2 = vdriver.explore(common.spec("simnet", "sockets", seed), m, chunk=max(100, m // 128), chunk_timeout=900)
    for v in r2.violations:
        if not v["key"].startswith("frame:"):
            v["key"] = "sim:" + v["key"]
    r2.counters = {"sockets_" + k: v for k, v in r2.counters.items()
                   if k in ("cases", "transmissions", "tx_udp", "tx_tcp", "udp_send_wouldblock", "tcp_write_wouldblock", "tcp_short_write")}
    res.merge(r2)
    return common.finish(PROP, tier, seed, "exploration", res, own, RULE, t0, min_conclusive=int(2000 * scale),
                         assumptions=["both runs see deterministic servers with fixed delays; virtual time does not advance "
                                      "while a chopped transfer is being completed"])
