"""C12 search-list expansion follows resolv.conf semantics - simulator (E1), reference model."""
import time
from checks import common
import vdriver
from checks import C01

PROP = "C12"
RULE = ("each case = one search/address request; name shape (0-3 dots, trailing dot, mixed case, boundary length 225-253, escaped "
        "form, localhost/literal/.onion) x ndots 0-3 x 0-3 domains (incl. root '.') x NOSEARCH/NOALIASES x host-alias file x "
        "lookups b/fb x entry point (ares_search, ares_search_dnsrec, ares_getaddrinfo, ares_gethostbyname; families) x an "
        "outcome per candidate over {data, NODATA, NXDOMAIN, SERVFAIL, REFUSED, timeout, FORMERR}; the ordered question "
        "names seen by the virtual server and the final status are compared with an independent resolv.conf(5) model; "
        "non-trivial = >=2 candidates; distinct = distinct (dots, ndots, ndomains, flags, entry point, outcome vector, "
        "length class)")


def own(key):
    if key.startswith("search:"):
        return PROP
    if key.startswith("addr:"):
        return "C13"
    return C01.own(key)


def run(tier, seed, scale=1.0):
    t0 = time.time()
    n = int((60000 if tier == "quick" else 3000000) * scale)
    res = vdriver.explore(common.spec("simnet", "search", seed), n, chunk=max(250, n // 128), chunk_timeout=900)
    return common.finish(PROP, tier, seed, "exploration", res, own, RULE, t0, min_conclusive=int(5000 * scale),
                         assumptions=["reference model in harness/simnet/sim_search.h written from resolv.conf(5) and the "
                                      "property statement; A and AAAA of one candidate get the same outcome class"])
