"""C04 decoded records say what the wire says - differential against the independent RFC codec
(engine E2: harness/codec + harness/refdns, ASan+UBSan build)."""
import time
from checks import common
import vdriver

PROP = "C04"
RULE = ("each case = one generated (and possibly byte-mutated) DNS message handed to ares_dns_parse and "
        "to the independent reference decoder; soundness (both accept => canonical dumps equal field by "
        "field), completeness (reference well-formed and inside the supported subset => c-ares accepts), "
        "and structural acceptance (c-ares must not accept forward/self/looping pointers, overruns, "
        "reserved label types); diff-escape cases round-trip label bytes through presentation text both "
        "ways. non-trivial = reference-well-formed with >=1 RR, or within 2 byte edits of a regular "
        "generated message with >=1 RR; distinct = distinct (RR type, compression layout class, boundary "
        "class) triples seen in non-trivial cases (escape: distinct (label count, octet classes, size))")

# profile -> (quick cases, thorough cases, chunk)
PLAN = [
    ("gen", 30000, 400000, 2000),          # generator / reference self-consistency
    ("diff", 600000, 14000000, 8000),
    ("diff-rdlen0", 30000, 600000, 2000),  # RDLENGTH-0 undecoded RRs confined here (known finding)
    ("diff-flags", 160000, 3500000, 8000),
    ("diff-escape", 120000, 2500000, 5000),
]


def own(key):
    # monitor keys diff:* / gen:* and every sanitizer report in the parser / writer are C04's
    return PROP


def run(tier, seed, scale=1.0):
    t0 = time.time()
    res = vdriver.Result()
    for prof, quick, thorough, chunk in PLAN:
        n = int((quick if tier == "quick" else thorough) * scale)
        if n <= 0:
            continue
        sp = common.spec("codec", prof, seed)
        res.merge(vdriver.explore(sp, n, chunk=max(200, min(chunk, n // 32 or 1)), chunk_timeout=150))
    return common.finish(PROP, tier, seed, "exploration", res, own, RULE, t0,
                         min_conclusive=1000 * scale,
                         assumptions=["the reference codec harness/refdns implements RFC 1035/2535/2782/"
                                      "3403/3596/6698/6891/7553/8659/9460 correctly (profile gen "
                                      "cross-checks its decoder against its encoder)",
                                      "supported-subset and leniency rules in harness/codec/cdiff.h "
                                      "mirror what c-ares documents or its pinned tests assert",
                                      "ASan+UBSan red zones (gcc) for memory errors"])
