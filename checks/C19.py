"""C19 containers behave as their abstract data types - model-based testing (engine E3)."""
import time
from checks import common
import vdriver

PROP = "C19"
# profile -> (flavor, share of the case budget).  htable runs on the deterministic flavor (hash seed
# 0) so that a failing case replays bit for bit; the others do not depend on it.  slist draws its
# coin flips from a per-case seeded stream in either flavor (see ds_slist.h).
PROFILES = [("array", "asan", 1.0), ("slist", "asan", 0.8), ("llist", "asan", 1.0),
            ("htable", "asan-det", 0.5), ("buf", "asan", 1.0), ("record", "asan", 0.7)]
RULE = ("each case = one seeded operation sequence on one container compared step by step with a "
        "reference model; non-trivial = >=8 operations and >=1 removal; distinct = distinct "
        "(container, operation-kind trigram) seen in non-trivial cases")


def own(key):
    return PROP


def run(tier, seed, scale=1.0):
    t0 = time.time()
    # quick: 150 k sequences, ~250 CPU-s (20-40 s wall on 16 shared cores); thorough: 5 M, ~10 min
    per = int((30000 if tier == "quick" else 1000000) * scale)
    res = vdriver.Result()
    for prof, flavor, share in PROFILES:
        n = max(1, int(per * share))
        sp = common.spec("dsmodel", prof, seed, flavor=flavor)
        # the known findings include a sanitizer abort (buf profile, ~0.2% of its cases): keep
        # resuming crashed chunks there instead of giving up on them after the default 40 reports
        res.merge(vdriver.explore(sp, n, chunk=max(200, min(n // 64, 4000)), chunk_timeout=900,
                                  stop_after_violations=max(2000, n // 4) if prof == "buf" else 400))
    return common.finish(PROP, tier, seed, "exploration", res, own, RULE, t0,
                         min_conclusive=1000 * scale,
                         assumptions=["reference models in harness/dsmodel are correct",
                                      "ASan+UBSan red zones (gcc) for memory errors",
                                      "htable profile runs with the upstream fuzzing define (hash seed 0)"])
