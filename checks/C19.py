"""C19 containers behave as their abstract data types - model-based testing (engine E3)."""
import time
from checks import common
import vdriver

PROP = "C19"
PROFILES = ["array", "slist", "llist", "htable", "buf", "record"]
RULE = ("each case = one seeded operation sequence on one container compared step by step with a "
        "reference model; non-trivial = >=8 operations and >=1 removal; distinct = distinct "
        "(container, operation-kind trigram) seen in non-trivial cases")


def own(key):
    return PROP


def run(tier, seed, scale=1.0):
    t0 = time.time()
    per = int((30000 if tier == "quick" else 1500000) * scale)
    res = vdriver.Result()
    for prof in PROFILES:
        sp = common.spec("dsmodel", prof, seed)
        res.merge(vdriver.explore(sp, per, chunk=max(500, per // 64), chunk_timeout=900))
    return common.finish(PROP, tier, seed, "exploration", res, own, RULE, t0,
                         min_conclusive=1000 * scale,
                         assumptions=["reference models in harness/dsmodel are correct",
                                      "ASan+UBSan red zones (gcc) for memory errors"])
