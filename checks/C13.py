"""C13 address lookups return exactly the addresses the answers contain - simulator (E1), multiset model."""
import time
from checks import common
import vdriver
from checks import C01

PROP = "C13"
RULE = ("each case = one address request (getaddrinfo, gethostbyname, gethostbyaddr, getnameinfo) x family x hints (NOSORT, "
        "CANONNAME, port) x sortlist x lookup order b/bf/fb x name kind (DNS name, hosts-file name, literal, localhost) "
        "against an answer with 0-200 address records, 0-3 CNAMEs, optional records of the other family, foreign-class and "
        "duplicated records; every address encodes (record index, packet serial). Oracle: multiset of returned "
        "(family, index, serial) = multiset of class-IN A/AAAA records of the answers the library read, restricted to the "
        "requested family; TTL and port per node; sortlist ranks non-decreasing and stable; canonical name = end of chain; "
        "hosts/literal/loopback names never reach the network and return exactly their own addresses; reverse lookups ask "
        "exactly the reverse-map name and return PTR targets of the answer. non-trivial = >=2 address records or a CNAME, "
        "with network traffic; distinct = distinct (answer shape, entry point, family, hints, sortlist, lookup order)")


def own(key):
    if key.startswith("addr:"):
        return PROP
    if key.startswith("search:"):
        return "C12"
    # a memory error in the code that builds, sorts or releases an address result is the same breakage seen one step
    # earlier (a duplicated list entry is freed twice before the result can be compared with the answer)
    if key.startswith(("asan:", "ubsan:")) and any(f in key for f in (
            "ares_free_hostent", "sort_addresses", "sort6_addresses", "ares_addrinfo2hostent", "ares_addrinfo2addrttl",
            "ares_sortaddrinfo", "ares_gethostbyname_callback")):
        return PROP
    return C01.own(key)


def run(tier, seed, scale=1.0):
    t0 = time.time()
    n = int((30000 if tier == "quick" else 2000000) * scale)
    res = vdriver.explore(common.spec("simnet", "addr", seed), n, chunk=max(250, n // 128), chunk_timeout=900)
    # the search profile also checks that addresses come from the winning candidate only (addr:* keys)
    # (these cases are cheap and the histories that matter - an AF_UNSPEC candidate whose two questions end differently -
    # are a small share of them: three times as many as address cases in the quick tier)
    n2 = n * 3 if tier == "quick" else n
    res.merge(vdriver.explore(common.spec("simnet", "search", seed), n2, chunk=max(250, n2 // 128), chunk_timeout=900))
    return common.finish(PROP, tier, seed, "exploration", res, own, RULE, t0, min_conclusive=int(3000 * scale),
                         assumptions=["owner names of address records follow the CNAME chain (c-ares does not check owners, "
                                      "by its own documented choice)"])
