"""C03 write-then-parse is the identity, on the wire too - round-trip oracle with an independent
decoder in the loop (engine E2: harness/codec + harness/refdns, ASan+UBSan build)."""
import time
from checks import common
import vdriver

PROP = "C03"
RULE = ("each case = one record R (parsed from a generated message, or built through the public setters "
        "walking ares_dns_rr_get_keys x datatype, or requested from ares_create_query/ares_mkquery); if "
        "ares_dns_write succeeds: length <= 65535, parse(W) succeeds, dump(parse(W)) == dump(R), "
        "write(parse(W)) == W, the reference decoder accepts W with strictly backward pointers and its "
        "dump equals dump(R); the same through ares_dns_write_buf_tcp at buffer positions "
        "{0,1,2,11,300,16383,16384,40000} with and without a consumed prefix, and through "
        "ares_dns_record_duplicate; a failed write must fail in the framed writer too and leave its buffer untouched; "
        "E1 stage: every datagram / de-framed TCP message the virtual servers receive decodes as a well-formed query. non-trivial = written and (>=2 RRs or >=1 compression pointer); "
        "distinct = distinct (RR type multiset, pointer-count class, size bucket); mkquery: distinct "
        "(kind of name text, status, EDNS, text length bucket)")

# profile -> (quick cases, thorough cases, chunk)
PLAN = [
    ("roundtrip-parsed", 120000, 4500000, 4000),
    ("roundtrip-built", 120000, 4500000, 4000),
    ("roundtrip-mkquery", 80000, 3000000, 5000),
    ("roundtrip-big", 1300, 40000, 25),        # 16..64 KiB, names introduced early
    ("roundtrip-big-late", 160, 1600, 10),     # names first appear beyond offset 16383 (known finding)
    ("roundtrip-huge", 320, 3200, 20),         # above 64 KiB (known finding)
]


def own(key):
    # keys of the simulator stage other than the frame monitor's belong to the simulator's own checks
    if key.startswith("sim:"):
        return "C01"
    # monitor keys rt:*, frame:* and every sanitizer report in the writer / parser are C03's
    return PROP


def run(tier, seed, scale=1.0):
    t0 = time.time()
    res = vdriver.Result()
    for prof, quick, thorough, chunk in PLAN:
        n = int((quick if tier == "quick" else thorough) * scale)
        if n <= 0:
            continue
        sp = common.spec("codec", prof, seed)
        res.merge(vdriver.explore(sp, n, chunk=max(5, min(chunk, n // 32 or 1)), chunk_timeout=150))
    # E1 frame monitor: everything the virtual servers receive (UDP datagrams, de-framed TCP messages) in hostile
    # and chopped-transport histories must decode as one well-formed query
    for prof, quick, thorough in (("hostile", 12000, 600000), ("transport", 800, 40000)):
        n = int((quick if tier == "quick" else thorough) * scale)
        if n <= 0:
            continue
        r = vdriver.explore(common.spec("simnet", prof, seed), n, chunk=max(100, n // 64), chunk_timeout=600)
        for v in r.violations:
            if not v["key"].startswith("frame:"):
                v["key"] = "sim:" + v["key"]
        r.counters = {"sim_" + k: v for k, v in r.counters.items() if k in ("transmissions", "tx_udp", "tx_tcp", "cases", "tx_undecodable")}
        res.merge(r)
    return common.finish(PROP, tier, seed, "exploration", res, own, RULE, t0,
                         min_conclusive=1000 * scale,
                         assumptions=["the reference codec harness/refdns implements the RFC wire formats "
                                      "correctly",
                                      "cares_dump.h renders records through public getters only",
                                      "the simulator-side frame monitor (E1) covers what the library "
                                      "actually hands to sockets; this check covers the writers directly",
                                      "ASan+UBSan red zones (gcc) for memory errors"])
