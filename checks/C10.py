"""C10 socket protocol - simulator (E1), fd monitor; k-th socket-call fault enumeration."""
import time
from checks import common
import vdriver
from checks import C01

PROP = "C10"
FE_SLOTS = 160 * 5
RULE = ("(a) fault enumeration: for each scenario of a fixed family (12 kinds x variants: UDP, retry, TC->TCP, TCP, fast-open, "
        "stay-open, per-socket limit, getaddrinfo+sort probes, cancel, server change, search, reset) fail the k-th "
        "socket-layer call for every k up to past the last call and each of 5 error kinds; (b) exploration: seeded "
        "'sockets' and 'hostile' histories. Monitor = descriptor protocol automaton over the virtual socket layer's call "
        "log + socket-state callback stream + ares_fds/ares_getsock at quiescent points. non-trivial = >=2 sockets or "
        ">=1 fault fired; distinct = distinct set of (call kind, transport, outcome/fault kind) tuples seen in the case")


def own(key):
    if key.startswith("fd:"):
        return PROP
    return C01.own(key)


def run(tier, seed, scale=1.0):
    t0 = time.time()
    nscn = 12 if tier == "quick" else 120
    res = vdriver.Result()
    sp = common.spec("simnet", "faultenum", seed)
    r1 = vdriver.explore(sp, nscn * FE_SLOTS, chunk=FE_SLOTS // 2, chunk_timeout=600)
    res.merge(r1)
    n = int((15000 if tier == "quick" else 1000000) * scale)
    res.merge(vdriver.explore(common.spec("simnet", "sockets", seed), n, chunk=max(250, n // 128), chunk_timeout=600))
    res.merge(vdriver.explore(common.spec("simnet", "hostile", seed), n, chunk=max(250, n // 128), chunk_timeout=600))
    # (c) the library's own socket functions over real descriptors (engine E6 defsock): link-time wraps of the libc
    # calls keep a ledger of descriptors and fail the k-th call of one function
    n3 = int((7000 if tier == "quick" else 400000) * scale)
    r3 = vdriver.explore(common.spec("defsock", "faults", seed), n3, chunk=max(100, n3 // 128), chunk_timeout=600)
    r3.counters = {"defsock_" + k: v for k, v in r3.counters.items()}
    res.merge(r3)
    complete = r1.counters.get("faultenum_scenario_complete", 0)
    extra = dict(fault_enumeration=dict(scenarios=nscn, scenarios_enumerated_past_last_call=complete,
                                        faults_fired=r1.counters.get("faultenum_fired", 0),
                                        error_kinds=["ECONNREFUSED", "EWOULDBLOCK", "EIO", "EINTR", "ENOSYS"]),
                 exhaustive_for_scenarios=(complete >= nscn * 5))
    return common.finish(PROP, tier, seed, "fault_enumeration", res, own, RULE, t0,
                         min_conclusive=int(3000 * scale),
                         assumptions=["virtual socket layer never reuses a descriptor number",
                                      "a failing close() still releases the descriptor (Linux semantics)"],
                         extra=extra)
