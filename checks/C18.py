"""C18 legacy reply parsers agree with the record API and respect caller limits (engine E2, harness `legacy`).

One case = one message M (generated / mutated / seed corpus).  ares_dns_parse(M, flags 0) decides
"malformed"; when it accepts M every legacy ares_parse_*_reply function (13 entry points, a/aaaa twice
with different capacity / NULL-argument choices) must return the projection of the ANSWER section that
the public getters report, per the contract table in harness/legacy/lg_legacy.h.  addrttl arrays are
allocated at exactly the offered capacity (ASan), and a counting allocator must be back to its baseline
after the matching free function."""
import os
import time
from checks import common
from checks import C02
import vdriver

PROP = "C18"
common.HARNESSES["legacy"] = dict(srcs=["harness/legacy/legacy.c"], flavor="asan")
CORPUS = os.path.join(common.VERIF, "corpus")
RULE = ("each case = one message, 15 legacy calls compared field by field with the record API; a call is "
        "non-trivial when the record parser accepts the message and the answer section holds >=1 record of "
        "the function's type; distinct = distinct (function, number of selected records class, CNAME count "
        "class, chain/other-class/other-family flags, capacity class / NULL arguments / address variant, status)")


def own(key):
    if key.startswith("leg:") or key.startswith("lsan:"):
        return PROP
    # "never writes more array elements than the caller offered": the addrttl arrays are allocated at
    # exactly the offered capacity, so an overflow in the function that fills them is C18's own monitor
    if key.startswith("asan:heap-buffer-overflow:ares_addrinfo2addrttl"):
        return PROP
    # the harness walking what a legacy parser returned (unterminated alias/address lists, short blocks) or the
    # matching free function running over it: "exactly the records", "released completely by its free function"
    if key.startswith("asan:heap-buffer-overflow:harness<lg_") \
            or ":ares_free_hostent" in key or ":ares_free_data" in key:
        return PROP
    return "C02"   # other memory errors, UB, aborts and hangs in the parsers belong to C02


def run(tier, seed, scale=1.0):
    t0 = time.time()
    per = int((80000 if tier == "quick" else 3000000) * scale)
    sp = C02.private_spec("legacy", "legacy", seed, opts={"corpus": CORPUS})
    res = vdriver.explore(sp, per, chunk=max(100, min(2000, per // 128)), chunk_timeout=900,
                          stop_after_violations=2000)
    if tier != "quick":
        # the same differential under MemorySanitizer on fresh case indices
        try:
            spm = C02.private_spec("legacy", "legacy", seed, opts={"corpus": CORPUS}, flavor="msan")
            nm = int(150000 * scale)
            rm = vdriver.explore(spm, nm, chunk=max(100, min(2000, nm // 64 or 100)), chunk_timeout=900,
                                 first=50000000, stop_after_violations=2000)
            rm.counters = {"msan_" + k: v for k, v in rm.counters.items() if k in ("legacy_calls",)}
            res.merge(rm)
        except RuntimeError as e:
            res.harness_errors.append("msan stage: %r" % (e,))
    C02.drop_private()
    calls = res.counters.get("legacy_calls", 0)
    return common.finish(PROP, tier, seed, "exploration", res, own, RULE, t0,
                         min_conclusive=1000 * scale,
                         assumptions=["the record parser (ares_dns_parse + public getters) is the reference for the message content",
                                      "contract table in harness/legacy/lg_legacy.h (man pages, source, pinned suite)",
                                      "ASan red zone directly behind addrttl arrays of exactly the offered capacity",
                                      "counting allocator ledger installed with ares_library_init_mem"],
                         extra=dict(legacy_calls=calls))
