"""C11 concurrent use of one channel is race-free and deadlock-free - threaded stress with the real event
thread under ThreadSanitizer (engine E5 `etstress`, profile `stress`)."""
import time
from checks import common
from checks import c07_threaded as et
import vdriver

PROP = "C11"
RULE = ("each case = one short run: one channel with ARES_OPT_EVENT_THREAD (epoll/poll/select) over socketpair-backed "
        "socket functions, 2-8 client threads running a seeded mix of all request kinds, cancel, server/sortlist "
        "changes, reinit, configuration-file rewrites (event thread's change monitor), queue waits, read-only calls "
        "and dup, with seeded yield injection at lock boundaries; monitors: ThreadSanitizer (races, lock order, "
        "thread leaks), exactly-one callback and none after destroy, wait_empty ordering on a global sequence "
        "counter, bounded completion with a state witness, 20 s no-progress watchdog with thread stacks; "
        "non-trivial = >=2 client threads and >=1 pair of channel operations whose [call,return] intervals "
        "overlapped; distinct = distinct (operation kind, operation kind, back end) overlaps observed")


def own(key):
    # "the per-request guarantees (bounded completion time) still hold": the two timer situations that only exist
    # through concurrency - a client thread's request against a sleeping event thread, a timeout against a stream
    # of events - are this property's as much as C07's
    if key.startswith("timer:et:timeout-late:busy-traffic") or key.startswith("timer:et:retry-late:busy-backoff"):
        return PROP
    if key.startswith("timer:et:"):
        return "C07"
    return PROP


def run(tier, seed, scale=1.0):
    t0 = time.time()
    n = max(8, int((48 if tier == "quick" else 900) * scale))
    res = et.explore("stress", seed, n, "tsan", opts=stress_opts(), workers=8)
    et.foreign_listed_to_inconclusive(res, own, PROP)
    # the scripted timer scenarios (profile `timers`, AddressSanitizer build: they are about time, not about races)
    n2 = max(54, int((54 if tier == "quick" else 270) * scale))
    r2 = et.explore("timers", seed, n2, "asan", workers=8)
    r2.counters = {k: v for k, v in r2.counters.items() if k.startswith("timers.") or k.startswith("signals.") or k == "case.with_signals"}
    r2.fps = set()
    et.foreign_listed_to_inconclusive(r2, own, PROP)
    res.merge(r2)
    return common.finish(PROP, tier, seed, "exploration", res, own, RULE, t0,
                         min_conclusive=max(4, int(30 * min(1.0, scale))),
                         assumptions=["real threads: a run is one sample of the schedules its seed allows, not a replay",
                                      "ThreadSanitizer (gcc) with bounded history; lock-order detection on",
                                      "no IP networking: AF_UNIX socketpairs behind ares_set_socket_functions_ex",
                                      "the change monitor's hard-coded /etc watch is redirected to the scratch "
                                      "directory at link time (--wrap=inotify_add_watch)"])


def replay(path):
    """Not called by bin/check yet (it uses common.replay, whose generic keyer cannot read gcc-TSan stacks)."""
    return et.replay(PROP, path)


# open finding -> harness option that confines its trigger to a dedicated sub-workload (see etstress.c)
SWITCHES = {"C11-save-options-nolock": "saveopt", "C11-reinit-handle-race": "conc_reinit",
            "C11-destroy-vs-reload": "reload_destroy"}


def stress_opts():
    """Workload switches tied to open known findings (they disappear with the entry)."""
    opts = {}
    for e in vdriver.Known().entries:
        if e.get("status") != "open":
            continue
        if e.get("id") in SWITCHES:
            opts[SWITCHES[e["id"]]] = 0
        if any(k.startswith("timer:et:missed-deadline:idle-kept-open-conn") for k in e.get("keys", [])):
            # while "a query on an idle kept-open connection is never timed out" is open, every STAYOPEN stress
            # run would end in that (C07) finding's missed deadline; the timers profile is its dedicated workload
            opts["stayopen"] = 0
    return opts
